"""
Correspondence probes for the bookkeeping models (Lean: PGModel/Cache.lean, Share.lean, Serialize.lean, Inference.lean, Validate.lean, Api.lean, Memo.lean, Marginals.lean):
random operation histories / requests are replayed on the REAL objects and on the model through the driver commands
`cache`, `share`, `serial`, `infer`, `validate`, `api`, `memo`, `demoobj` (PGModel/DemoObj.lean), `epochkey` (PGModel/EpochKey.lean); answers are diffed. Used by props/c05.py, c17.py, c19.py, c20.py (ctx.corr_break on mismatch).
"""
import os, random, math
from fractions import Fraction
import numpy as np
import pgcommon as C


# ------------------------------------------------------------------------------------------ cache (C17)
def cache_history(ctx, rng, n_ops=12):
    pg = C.import_phasegen()
    from phasegen.state_space import LineageCountingStateSpace
    from phasegen.lineage import LineageConfig
    from phasegen.demography import Epoch
    use_cache = rng.random() < 0.7
    two = rng.random() < 0.5
    if not two:
        sizes = [1.0, 2.0, 0.5, rng.choice([4.0, 1.0 + 2.0 ** -30])]
        epochs = [Epoch(start_time=float(i), end_time=float(i + 1), pop_sizes={'pop_0': s}) for i, s in enumerate(sizes)]
        # an epoch with the same content as epoch 0 but other times: must be treated as the same key
        alias = Epoch(start_time=7.0, end_time=9.0, pop_sizes={'pop_0': sizes[0]})
        mk_cfg = lambda: LineageConfig(3)
    else:
        # two demes; every epoch differs from epoch 0 in exactly ONE field (one size, or one DIRECTED migration rate, either
        # direction): the key of the cache is the whole content of the epoch
        base_s, base_m = {'pop_0': 1.0, 'pop_1': 2.0}, {('pop_0', 'pop_1'): 0.5, ('pop_1', 'pop_0'): 0.25}
        variants = [({}, {}), ({'pop_1': 3.0}, {}), ({}, {('pop_0', 'pop_1'): 1.5}), ({}, {('pop_1', 'pop_0'): 1.25}), ({'pop_0': 0.5}, {}),
                    # differences far below any "approximately equal" tolerance are differences: the key is the exact content
                    ({'pop_1': 2.0 * (1 + 2.0 ** -29)}, {}), ({}, {('pop_1', 'pop_0'): 0.25 + 2.0 ** -33})]
        rng.shuffle(variants)
        variants = [({}, {})] + [v for v in variants if v != ({}, {})][:3]
        epochs = [Epoch(start_time=float(i), end_time=float(i + 1), pop_sizes={**base_s, **ds}, migration_rates={**base_m, **dm})
                  for i, (ds, dm) in enumerate(variants)]
        alias = Epoch(start_time=7.0, end_time=9.0, pop_sizes=dict(base_s), migration_rates=dict(base_m))
        mk_cfg = lambda: LineageConfig({'pop_0': 2, 'pop_1': 1})
        ctx.count('cache-histories-two-demes')
    ss = LineageCountingStateSpace(lineage_config=mk_cfg(), epoch=epochs[0])
    ss.cache = use_cache
    count = [0]
    orig = ss.get_transitions
    def counted():
        count[0] += 1
        return orig()
    ss.get_transitions = counted
    fresh = []
    for e in epochs:
        f = LineageCountingStateSpace(lineage_config=mk_cfg(), epoch=e)
        fresh.append(np.array(f.S))
    ops, answers = [], []
    for _ in range(n_ops):
        o = rng.choice(['u', 'u', 's', 's', 's', 'd', 'c', 't'])
        if o == 'u':
            i = rng.randrange(len(epochs))
            ss.update_epoch(alias if (i == 0 and rng.random() < 0.3) else epochs[i])
            ops.append(f'u{i}')
        elif o == 's':
            S = np.array(ss.S)
            hit = [i for i, F in enumerate(fresh) if F.shape == S.shape and np.allclose(F, S, rtol=1e-13, atol=0)]
            answers.append(str(hit[0]) if len(hit) == 1 else f'?{hit}')
            ops.append('s')
        elif o == 'd':
            ss.drop_S(); ops.append('d')
        elif o == 'c':
            ss.drop_cache(); ops.append('c')
        else:
            _ = ss.states; ops.append('t')
    keys = []
    for k in ss._cache.keys():
        hit = [i for i, e in enumerate(epochs) if e == k]
        keys.append(str(hit[0]) if hit else '?')
    real = f"{' '.join(answers) if answers else '-'} | {','.join(keys) if keys else '-'} | {count[0]}"
    model = C.driver().ask(f"cache {1 if use_cache else 0} 0 {' '.join(ops)}")
    ctx.count('cache-histories')
    if ' '.join(model.split()) != ' '.join(real.split()):
        ctx.corr_break('cache-history', use_cache=use_cache, ops=ops, model=model, real=real)
    return ops


# ------------------------------------------------------------------------------------------ inference (C19)
class _Res:
    def __init__(self, x, fun):
        self.x, self.fun, self.success = np.array(x, dtype=float), float(fun), True


def infer_history(ctx, rng, n_ops=7):
    pg = C.import_phasegen()
    import phasegen.inference as I
    queue = []
    def fake_optimize(**kw):
        return queue.pop(0)
    orig = I.Inference.__dict__['_optimize']   # the staticmethod object (the attribute access would unwrap it)
    I.Inference._optimize = staticmethod(fake_optimize)
    try:
        def mk():
            return pg.Inference(bounds=dict(N=(0.0, 100.0)), x0=dict(N=1.0), coal=lambda N: pg.Coalescent(n=2), loss=lambda c, o: 0.0,
                                n_runs=1, parallelize=False, pbar=False, seed=1)
        main = mk()
        ops, runs, errs = [], [], []
        for idx in range(n_ops):
            o = rng.choice(['r', 'r', 'a', 'a', 'an', 'b', 'B', 'Bn'])
            if o in ('a', 'B') and not runs:
                o = 'r'
            try:
                if o == 'r':
                    k = rng.randint(1, 4)
                    rs = [(Fraction(rng.randint(0, 6), rng.choice([1, 2])), Fraction(rng.randint(1, 9))) for _ in range(k)]
                    runs.append(rs)
                    ops.append(f'r{k} ' + ' '.join(f'{C.rs(f)}:{C.rs(x)}' for f, x in rs))
                    main.n_runs = k
                    queue[:] = [_Res([float(x)], float(f)) for f, x in rs]
                    main._run()
                elif o in ('a', 'B'):
                    j = rng.randrange(len(runs))
                    other = mk(); other.n_runs = len(runs[j])
                    queue[:] = [_Res([float(x)], float(f)) for f, x in runs[j]]
                    other._run()
                    ops.append(f'{o}{j}')
                    (main.add_run if o == 'a' else main.add_bootstrap)(other)
                elif o == 'an':
                    ops.append('an'); main.add_run(mk())
                elif o == 'Bn':
                    ops.append('Bn'); main.add_bootstrap(mk())
                else:
                    x = rng.randint(1, 9)
                    ops.append(f'b {x}'); main.add_bootstrap(dict(N=float(x)))
            except (RuntimeError, ValueError):
                errs.append(idx)
        def q(v):
            return C.rs(Fraction(float(v)).limit_denominator(1000))
        loss = 'none' if main.loss_inferred is None else q(main.loss_inferred)
        x = 'none' if not main.params_inferred else ','.join(q(v) for v in main.params_inferred.values())
        runs_s = ','.join(q(v) for v in main.loss_runs) if len(main.loss_runs) else '-'
        real = f"loss={loss} x={x} runs={runs_s} rows={len(main.bootstraps)} err={','.join(map(str, errs)) if errs else '-'}"
    finally:
        I.Inference._optimize = orig
    model = C.driver().ask('infer ' + ' '.join(ops))
    ctx.count('infer-histories')
    if model != real:
        ctx.corr_break('infer-history', ops=ops, model=model, real=real)


def infer_labels(ctx, rng):
    """`Inference._run` with named parameters: which name every coordinate of the positional optimiser gets.
    `scipy.optimize.minimize` (as seen from phasegen.inference) is replaced by a fake that records the start vector and
    the box list it is given, evaluates the objective once at the point it returns (recording the labelled dict the loss
    wrapper builds from the positional vector) and returns a point INSIDE the positional boxes with a loss drawn from the
    rng.  Compared with the driver's `inferlab r …`: the key order of the boxes and of the labels of every run, and the
    labelled `params_inferred`, `loss_inferred`, `loss_runs`."""
    pg = C.import_phasegen()
    import phasegen.inference as I
    n_par = rng.choice([2, 2, 3])
    names = rng.sample(['N', 'm', 'a', 't0', 'g'], n_par)
    # pairwise distinct (disjoint) boxes with integer end points: a box identifies its key
    bounds = {}
    for j, k in enumerate(names):
        lo = 10 * rng.randrange(5) + 50 * j
        bounds[k] = (float(lo), float(lo + rng.randint(1, 5)))
    def inside(box):
        return Fraction(int(box[0])) + Fraction(int(box[1] - box[0])) * Fraction(rng.randint(0, 8), 8)
    given = rng.random() < 0.85
    x0 = None
    if given:
        order = names[:]
        rng.shuffle(order)
        x0 = {k: float(inside(bounds[k])) for k in order}
    n_runs = rng.randint(1, 4)
    calls, labelled = [], []
    def coal(**kw):
        labelled.append(dict(kw))
        return pg.Coalescent(n=2)
    def fake_minimize(fun, x0, method=None, bounds=None, options=None, **kw):
        x = [inside(b) for b in bounds]
        f = Fraction(rng.randint(0, 5), rng.choice([1, 2]))
        calls.append(dict(start=[float(v) for v in x0], boxes=[tuple(map(float, b)) for b in bounds], x=x, f=f))
        n0 = len(labelled)
        fun(np.array([float(v) for v in x]))
        calls[-1]['labels'] = list(labelled[n0].keys()) if len(labelled) > n0 else None
        calls[-1]['labelled'] = dict(labelled[n0]) if len(labelled) > n0 else None
        return _Res([float(v) for v in x], float(f))
    orig = I.opt.minimize
    I.opt.minimize = fake_minimize
    try:
        inf = pg.Inference(bounds=dict(bounds), x0=None if x0 is None else dict(x0), coal=coal, loss=lambda c, o: 0.0,
                           n_runs=n_runs, parallelize=False, pbar=False, seed=rng.randrange(10 ** 6), cache=False)
        x0_used = dict(inf.x0)
        inf._run()
    finally:
        I.opt.minimize = orig
    def key_of(box):
        hit = [k for k, b in bounds.items() if tuple(map(float, b)) == box]
        return hit[0] if len(hit) == 1 else f'?{box}'
    boxes = '|'.join(','.join(key_of(b) for b in c['boxes']) for c in calls)
    labels = '|'.join(','.join(c['labels'] or ['?']) for c in calls)
    params = ','.join(f'{k}={C.rs(C.frac(v))}' for k, v in inf.params_inferred.items())
    real = (f"params={params} loss={C.rs(C.frac(inf.loss_inferred))} runs={','.join(C.rs(C.frac(v)) for v in inf.loss_runs)} "
            f"boxes={boxes} labels={labels}")
    line = (f"inferlab r {','.join(bounds.keys())} {','.join(f'{k}={C.rs(C.frac(v))}' for k, v in x0_used.items())} {n_runs - 1} "
            + ' '.join(f"{C.rs(c['f'])}:{','.join(C.rs(v) for v in c['x'])}" for c in calls))
    ctx.count('infer-labels')
    ctx.count('infer-labels-x0-order-differs' if list(x0_used) != list(bounds) else 'infer-labels-x0-order-same')
    if len(calls) != n_runs:
        ctx.corr_break('infer-labels', why='number of optimiser calls', n_runs=n_runs, calls=len(calls))
        return
    model = C.driver().ask(line)
    if model != real:
        ctx.corr_break('infer-labels', request=line, model=model, real=real, bounds={k: list(b) for k, b in bounds.items()},
                       x0=x0_used, x0_given=given)
    # the start vector of the first run is x0 in its own order
    if calls[0]['start'] != list(x0_used.values()):
        ctx.corr_break('infer-labels', why='start vector of run 0', start=calls[0]['start'], x0=x0_used)


# ------------------------------------------------------------------------------------------ validation (C20)
def _rat(rng, lo, hi):
    return Fraction(rng.randint(lo * 4, hi * 4), 4)


def validate_request(ctx, rng):
    """random request, mostly valid with one or two fields pushed across a boundary"""
    pg = C.import_phasegen()
    import phasegen.rewards as R
    r = dict(n=rng.choice([2, 3, 4]), loci=1, viacfg=0, unl=0, rloc=Fraction(0), rarg=None, model='kingman', alpha=Fraction(3, 2),
             psi=Fraction(1, 2), c=Fraction(1), start=Fraction(0), end=None, sizes=[], rates=[], dist='th', query=('mean',))
    for _ in range(rng.choice([0, 1, 1, 2])):
        f = rng.choice(['loci', 'unl', 'rloc', 'rarg', 'model', 'start', 'end', 'sizes', 'rates', 'dist'])
        if f == 'loci':
            r['loci'] = rng.choice([0, 1, 2, 2, 3]); r['viacfg'] = rng.choice([0, 1])
        elif f == 'unl':
            r['viacfg'] = 1; r['loci'] = 2; r['unl'] = rng.choice([-1, 0, 1])
        elif f == 'rloc':
            r['viacfg'] = 1; r['loci'] = 2; r['rloc'] = rng.choice([Fraction(-1), Fraction(0), Fraction(1, 2)])
        elif f == 'rarg':
            r['loci'] = 2; r['viacfg'] = rng.choice([0, 1]); r['rarg'] = rng.choice([Fraction(-1, 2), Fraction(0), Fraction(2)])
        elif f == 'model':
            r['model'] = rng.choice(['beta', 'dirac'])
            r['alpha'] = rng.choice([Fraction(1, 2), Fraction(9, 8), Fraction(3, 2), Fraction(15, 8), Fraction(5, 2)])
            r['psi'] = rng.choice([Fraction(0), Fraction(1, 4), Fraction(3, 4), Fraction(1), Fraction(-1, 4), Fraction(5, 4)])
        elif f == 'start':
            r['start'] = rng.choice([Fraction(-1), Fraction(0), Fraction(1)])
        elif f == 'end':
            r['end'] = rng.choice([Fraction(-1), Fraction(1, 2), Fraction(1), Fraction(4)])
        elif f == 'sizes':
            r['sizes'] = [(rng.choice([Fraction(0), Fraction(1), Fraction(-1)]), rng.choice([Fraction(1), Fraction(2), Fraction(0), Fraction(-1)]))]
        elif f == 'rates':
            r['rates'] = [(rng.choice([Fraction(0), Fraction(1), Fraction(-1)]), rng.choice([Fraction(1, 2), Fraction(0), Fraction(-1)]))]
        else:
            r['dist'] = rng.choice(['sfs', 'fsfs'])
    n = r['n']
    q = rng.choice(['mean', 'cdf', 'acc', 'mom', 'quant', 'mut'])
    if q == 'cdf':
        r['query'] = ('cdf', [rng.choice([Fraction(-1), Fraction(0), Fraction(1)]) for _ in range(rng.randint(1, 2))])
    elif q == 'acc':
        k = rng.choice([1, 2]); r['query'] = ('acc', k, rng.choice([k, k, k + 1]), [rng.choice([Fraction(-1), Fraction(1, 2), Fraction(2)])])
    elif q == 'mom':
        k = rng.choice([1, 2]); r['query'] = ('mom', k, rng.choice([k, k, k - 1]), rng.choice([None, Fraction(-1), Fraction(2)]))
    elif q == 'quant':
        r['query'] = ('quant', rng.choice([Fraction(-1, 10), Fraction(0), Fraction(1, 2), Fraction(1), Fraction(11, 10)]))
    elif q == 'mut':
        if r['dist'] == 'th':
            r['dist'] = 'sfs'
        bins = n - 1 if r['dist'] == 'sfs' else n // 2
        r['query'] = ('mut', rng.choice([bins, bins, bins + 1]), rng.choice([Fraction(-1), Fraction(0), Fraction(1)]), 1)
    # ---- model verdict
    def rl(xs): return ','.join(C.rs(x) for x in xs) if xs else '-'
    qs = {'mean': 'mean', 'cdf': lambda: 'cdf:' + rl(r['query'][1]), 'acc': lambda: f"acc:{r['query'][1]}:{r['query'][2]}:{rl(r['query'][3])}",
          'mom': lambda: f"mom:{r['query'][1]}:{r['query'][2]}:{'none' if r['query'][3] is None else C.rs(r['query'][3])}",
          'quant': lambda: 'quant:' + C.rs(r['query'][1]), 'mut': lambda: f"mut:{r['query'][1]}:{C.rs(r['query'][2])}:{r['query'][3]}"}[r['query'][0]]
    qs = qs if isinstance(qs, str) else qs()
    n_epochs = 1
    if (r['sizes'] or r['rates']) and r['query'][0] == 'mut':
        n_epochs = 2 if any(t > 0 for t, _ in r['sizes'] + r['rates']) else 1
        qs = f"mut:{r['query'][1]}:{C.rs(r['query'][2])}:{n_epochs}"
    line = (f"validate n={n} loci={r['loci']} viacfg={r['viacfg']} unl={r['unl']} rloc={C.rs(r['rloc'])} "
            f"rarg={'none' if r['rarg'] is None else C.rs(r['rarg'])} model={r['model']} alpha={C.rs(r['alpha'])} psi={C.rs(r['psi'])} c={C.rs(r['c'])} "
            f"start={C.rs(r['start'])} end={'none' if r['end'] is None else C.rs(r['end'])} "
            f"sizes={','.join(f'{C.rs(t)}:{C.rs(v)}' for t, v in r['sizes']) if r['sizes'] else '-'} "
            f"rates={','.join(f'{C.rs(t)}:{C.rs(v)}' for t, v in r['rates']) if r['rates'] else '-'} dist={r['dist']} query={qs}")
    model = C.driver().ask(line)
    # ---- real verdict
    def real():
        if r['model'] == 'beta':
            if r['alpha'] in (1, 2):
                return None
            m = pg.BetaCoalescent(alpha=float(r['alpha']))
        elif r['model'] == 'dirac':
            m = pg.DiracCoalescent(psi=float(r['psi']), c=float(r['c']))
        else:
            m = pg.StandardCoalescent()
        dem = None
        if r['sizes'] or r['rates']:
            kw = {}
            if r['sizes']:
                kw['pop_sizes'] = {'pop_0': {float(t): float(v) for t, v in r['sizes']}}
            if r['rates']:
                kw['migration_rates'] = {('pop_0', 'pop_1'): {float(t): float(v) for t, v in r['rates']}}
                kw.setdefault('pop_sizes', {'pop_0': {0.0: 1.0}})
                kw['pop_sizes']['pop_1'] = {0.0: 1.0}
            dem = pg.Demography(**kw)
        loci = pg.LocusConfig(n=r['loci'], n_unlinked=r['unl'], recombination_rate=float(r['rloc'])) if r['viacfg'] else r['loci']
        nn = {'pop_0': n, 'pop_1': 0} if r['rates'] else n
        coal = pg.Coalescent(n=nn, model=m, demography=dem, loci=loci, recombination_rate=None if r['rarg'] is None else float(r['rarg']),
                             start_time=float(r['start']), end_time=None if r['end'] is None else float(r['end']), parallelize=False, pbar=False)
        Q = r['query']
        # cdf / quantile are always asked of the tree height; the other statistics of the chosen distribution
        dist = None if Q[0] in ('cdf', 'quant') else dict(th=lambda: coal.tree_height, sfs=lambda: coal.sfs, fsfs=lambda: coal.fsfs)[r['dist']]()
        def rew(L):
            if r['dist'] == 'th':
                return tuple(R.TreeHeightReward() for _ in range(L))
            return tuple(R.UnitReward() for _ in range(L))
        if Q[0] == 'mean':
            return dist.mean
        if Q[0] == 'cdf':
            return coal.tree_height.cdf([float(t) for t in Q[1]])
        if Q[0] == 'acc':
            return dist.accumulate(Q[1], [float(t) for t in Q[3]], rew(Q[2]))
        if Q[0] == 'mom':
            return dist.moment(Q[1], rew(Q[2]), end_time=None if Q[3] is None else float(Q[3]))
        if Q[0] == 'quant':
            return coal.tree_height.quantile(float(Q[1]))
        if Q[0] == 'mut':
            return dist.get_mutation_config([0] * Q[1], float(Q[2]))
    with C.LogCapture():
        try:
            out = real()
            verdict = 'ok' if out is not None or True else 'ok'
            if r['model'] == 'beta' and r['alpha'] in (1, 2):
                return   # endpoints: numerical phase raises, compared at constructor level elsewhere
        except NotImplementedError:
            verdict = 'NotImplementedError'
        except ValueError:
            verdict = 'ValueError'
        except Exception as e:
            verdict = type(e).__name__
    ctx.count('validate-requests'); ctx.count('validate:' + verdict)
    if verdict != model:
        # the model speaks about argument checks only; numerical-phase errors (e.g. horizon before start time) are out of its scope
        if verdict == 'ValueError' and model == 'ok' and (r['start'] > 0 and r['end'] is None):
            ctx.count('validate:numerical-phase'); return
        ctx.corr_break('validate', request=line, model=model, real=verdict)


# ------------------------------------------------------------------------------------------ call layer of moment / accumulate
def _api_tok(x):
    return 'none' if x is None else C.rs(C.frac(x))


def api_calls(ctx, rng):
    """One random call of the REAL `moment(...)` / `accumulate(...)` of a real distribution object (`coal.tree_height`,
    `coal.total_branch_length`, or the `Coalescent` itself) against the model `PGModel/Api.lean` (driver command `api`,
    variant `c`, or the one named by VERIF_API_VARIANT).  Only the numerical RESULT of `_accumulate` is replaced, by the
    driver's fake `t^len(rs) * prod_j (id(rs[j]) + 2)^(j+1)`: the patched class attribute first runs the tree's own
    `_accumulate` (n = 3: a handful of 3-state matrix exponentials), so its argument checks act as they are in the tree under
    test, and then returns the fake values.  `tree_height.t_max` is pre-set on the instance when no end time was given to
    the `Coalescent` (no absorption-time search).  Times are dyadic rationals: the float arithmetic of the call layer is exact
    up to the division by `len(permutations)`; values are compared at 1e-12."""
    pg = C.import_phasegen()
    import phasegen.distributions as D
    import phasegen.rewards as R
    pool = [R.TreeHeightReward(), R.TotalBranchLengthReward(), R.LineageReward(2), R.LineageReward(3), R.UnitReward()]
    ident = {r: i for i, r in enumerate(pool)}
    assert len(ident) == len(pool)
    # ---- the distribution object
    dstart = rng.choice([0, 0.0, 0, 0.5, 1.0, 2.0])
    dend = rng.choice([None, None, None, dstart, dstart + 0.5, dstart + 4.0])
    tmax = dend if dend is not None else rng.choice([4.0, 8.0])
    coal = pg.Coalescent(n=3, start_time=dstart, end_time=dend, parallelize=False, pbar=False)
    th = coal.tree_height
    if dend is None:
        th.__dict__['t_max'] = tmax          # the cached_property's slot
    target = rng.choice(['th', 'tbl', 'coal'])
    obj, dreward = {'th': (th, 0), 'tbl': (coal.total_branch_length, 1), 'coal': (coal, 0)}[target]
    # ---- the call
    k = rng.choice([0, 1, 1, 2, 2, 2, 3, 3, -1])
    kk = float(k) if (k >= 0 and rng.random() < 0.1) else k         # `int(k)`
    shape = rng.choice(['none', 'right', 'right', 'long', 'long', 'short'])
    n_rew = {'none': None, 'right': max(k, 0), 'long': max(k, 0) + rng.choice([1, 1, 2]), 'short': max(k, 0) - 1}[shape]
    if n_rew is not None and n_rew < 0:
        n_rew = 0
    rewards = None if n_rew is None else [rng.choice(pool) for _ in range(n_rew)]
    if rewards is not None and rng.random() < 0.5:
        rewards = tuple(rewards)
    center, permute = rng.random() < 0.6, rng.random() < 0.6
    what = rng.choice(['mom', 'mom', 'acc'])
    tpool = [None, None, 0, 0.0, 0.25, 1.0, 3.0, -1.0]
    start, end = rng.choice(tpool), rng.choice([None, None, 0, 0.0, 0.5, 2.0, 5.0, -1.0])
    times = [rng.choice([0, 0.0, 0.5, 1.5, 4.0, 4.0, -0.5]) for _ in range(rng.choice([0, 1, 1, 2, 3]))]
    rew_tok = 'none' if rewards is None else (','.join(str(ident[r]) for r in rewards) if len(rewards) else '-')
    variant = os.environ.get('VERIF_API_VARIANT', 'c')
    line = (f"api {variant} {what} k={int(k)} rewards={rew_tok} start={_api_tok(start)} end={_api_tok(end)} "
            f"times={C.rlist(times)} center={int(center)} permute={int(permute)} dstart={C.rs(C.frac(dstart))} "
            f"tmax={C.rs(C.frac(tmax))} dreward={dreward}")
    # ---- real verdict, `_accumulate` answering with the fake values after running the tree's own code
    orig = D.PhaseTypeDistribution.__dict__['_accumulate']      # the raw class-dict entry (restored as is)
    def fake_accumulate(self, k, end_times, rewards=None):
        orig(self, k, end_times, rewards)
        t = np.array(end_times, dtype=float)
        rs_ = (self.reward,) * k if rewards is None else tuple(rewards)
        coef = 1.0
        for j, r in enumerate(rs_):
            coef *= float(ident[r] + 2) ** (j + 1)
        return t ** len(rs_) * coef
    D.PhaseTypeDistribution._accumulate = fake_accumulate
    try:
        with C.LogCapture():
            try:
                if what == 'mom':
                    kw = {}
                    if rewards is not None or rng.random() < 0.5:
                        kw['rewards'] = rewards
                    if start is not None or rng.random() < 0.5:
                        kw['start_time'] = start
                    if end is not None or rng.random() < 0.5:
                        kw['end_time'] = end
                    out = [float(obj.moment(kk, center=center, permute=permute, **kw))]
                else:
                    out = [float(x) for x in np.asarray(obj.accumulate(kk, list(times), rewards, center=center, permute=permute))]
                real = ('ok', out)
            except Exception as e:
                real = ('err', type(e).__name__)
    finally:
        D.PhaseTypeDistribution._accumulate = orig
    assert D.PhaseTypeDistribution.__dict__['_accumulate'] is orig
    model = C.driver().ask(line)
    head, _, rest = model.partition(' ')
    if head == 'ok':
        vals = [] if rest.strip() in ('-', '') else [Fraction(x) for x in rest.split(',')]
        agree = real[0] == 'ok' and len(vals) == len(real[1]) and all(
            abs(float(v) - x) <= 1e-12 * max(1.0, abs(float(v))) for v, x in zip(vals, real[1]))
    else:
        agree = real[0] == 'err' and real[1] == rest.strip()
    ctx.count('api-calls'); ctx.count(f'api:{what}:{real[0] if real[0] == "ok" else real[1]}')
    ctx.count(f'api-target:{target}')
    if rewards is not None and len(rewards) != int(k):
        ctx.count('api-length-mismatch:' + ('longer' if len(rewards) > int(k) else 'shorter'))
    if what == 'mom' and end is not None and end == 0:
        ctx.count('api-explicit-zero-end')
    if what == 'mom' and start is not None and start == 0 and dstart > 0:
        ctx.count('api-explicit-zero-start-over-positive-default')
    if not agree:
        ctx.corr_break('api-call', request=line, model=model, real=list(real), target=target,
                       k=repr(kk), rewards=repr(rewards), start=repr(start), end=repr(end), times=repr(times),
                       dstart=repr(dstart), dend=repr(dend))
    return line
# ------------------------------------------------------------------------------------------ configuration glue (C08)
_CFG_POOL = ['pop_10', 'pop_9', 'pop_2', 'pop_0', 'pop_1', 'b', 'a', 'A', 'B', 'Zed', 'c', 'x1', 'X1', 'beta', 'Alpha', '_u']
_CFG_SIZES = [Fraction(1, 4), Fraction(1, 2), Fraction(3, 4), Fraction(3, 2), 2, 3, 5, 7, Fraction(1, 3), Fraction(11, 10)]
_CFG_RATES = [0, Fraction(1, 8), Fraction(1, 4), Fraction(1, 2), 1, Fraction(5, 4), 2, 3, Fraction(1, 3), Fraction(7, 10)]
_CFG_TIMES = [0, Fraction(1, 4), Fraction(1, 2), 1, Fraction(3, 2), 2, Fraction(7, 2)]


def _cfg_changes(rng, values, force_zero=False, times=None):
    """a {time: value} dict with 1-3 change times in a random listing order"""
    ts = rng.sample(_CFG_TIMES if times is None else times, rng.randint(1, 3))
    if force_zero and 0 not in ts:
        ts[0] = 0
    return {float(t): float(rng.choice(values)) for t in ts}


def _cfg_input(rng, sizes=None, rates=None, times=None):
    """random named containers `n`, `pop_sizes`, `migration_rates` in all their shapes (scalar / list / dict sample
    configuration, unsorted names, unsampled populations omitted or listed with 0; scalar / flat / full / None sizes;
    flat / full / None rates); the values and change times are drawn from the given pools"""
    sizes = _CFG_SIZES if sizes is None else sizes
    rates = _CFG_RATES if rates is None else rates
    times = _CFG_TIMES if times is None else times
    single = rng.random() < 0.12
    if single:
        # the scalar / list shapes: one population, implicitly named pop_0
        cnt = rng.randint(2, 3)
        n = rng.choice([cnt, [cnt], {'pop_0': cnt}])
        size_shape = rng.choice(['scalar', 'flat', 'full', 'none'])
        s0 = float(rng.choice(sizes))
        pop_sizes = {'scalar': s0, 'flat': {'pop_0': s0}, 'full': {'pop_0': _cfg_changes(rng, sizes, times=times)}, 'none': None}[size_shape]
        migration = None
        mig_shape = 'none'
    else:
        k = rng.randint(2, 4 if rng.random() < 0.25 else 3)
        use_list = rng.random() < 0.12
        names = [f'pop_{i}' for i in range(k)] if use_list else rng.sample(_CFG_POOL, k)
        # sample configuration: which names are listed, with how many lineages (total 2 or 3), in which order
        total = rng.randint(2, 3)
        if use_list:
            cnts = [0] * k
            for _ in range(total):
                cnts[rng.randrange(k)] += 1
            n = cnts if rng.random() < 0.5 else np.array(cnts)
            listed = list(names)
        else:
            sampled = rng.sample(names, rng.randint(1, min(k, total)))
            cnt = {p: 1 for p in sampled}
            for _ in range(total - len(sampled)):
                cnt[rng.choice(sampled)] += 1
            zero_listed = [p for p in names if p not in sampled and rng.random() < 0.4]
            listed = sampled + zero_listed
            rng.shuffle(listed)
            n = {p: cnt.get(p, 0) for p in listed}
        # every name not listed in the sample configuration must be known to the demography
        must = [p for p in names if p not in listed]
        size_shape = rng.choice(['flat', 'full', 'full', 'none'])
        mig_shape = rng.choice(['flat', 'full', 'full', 'none'])
        pairs = [(p, q) for p in names for q in names if p != q]
        mig_pairs = rng.sample(pairs, rng.randint(1, len(pairs))) if mig_shape != 'none' else []
        in_mig = {p for pq in mig_pairs for p in pq}
        size_names = [p for p in names if rng.random() < 0.7] if size_shape != 'none' else []
        missing = [p for p in must if p not in in_mig and p not in size_names]
        if missing and size_shape == 'none':
            size_shape = rng.choice(['flat', 'full'])
        size_names = size_names + missing
        if size_shape != 'none' and not size_names:
            size_names = [rng.choice(names)]
        rng.shuffle(size_names)
        if size_shape == 'flat':
            pop_sizes = {p: float(rng.choice(sizes)) for p in size_names}
        elif size_shape == 'full':
            pop_sizes = {p: _cfg_changes(rng, sizes, times=times) for p in size_names}
        else:
            pop_sizes = None
        if mig_shape == 'flat':
            migration = {pq: float(rng.choice(rates)) for pq in mig_pairs}
        elif mig_shape == 'full':
            migration = {pq: _cfg_changes(rng, rates, times=times) for pq in mig_pairs}
        else:
            migration = None
    return n, pop_sizes, migration, size_shape, mig_shape


def _cfg_tokens(n, pop_sizes, migration, size_shape, mig_shape):
    """the driver syntax of the containers (commands `config`, `cfgepochs`): tokens of `n`, `pop_sizes`,
    `migration_rates`, and the number of names the sample configuration lists"""
    if isinstance(n, dict):
        n_tok, n_len = (','.join(f'{p}={c}' for p, c in n.items()) or '-'), len(n)
    elif isinstance(n, (list, np.ndarray)):
        n_tok, n_len = 'list:' + ','.join(str(int(c)) for c in n), len(n)
    else:
        n_tok, n_len = f'scalar:{n}', 1
    def ch_tok(ch):
        return ';'.join(f'{C.rs(t)}:{C.rs(v)}' for t, v in ch.items())
    if pop_sizes is None:
        s_tok = '-'
    elif not isinstance(pop_sizes, dict):
        s_tok = f'scalar:{C.rs(pop_sizes)}'
    elif size_shape == 'flat':
        s_tok = 'flat:' + ','.join(f'{p}={C.rs(v)}' for p, v in pop_sizes.items())
    else:
        s_tok = '|'.join(f'{p}@{ch_tok(ch)}' for p, ch in pop_sizes.items())
    if migration is None:
        m_tok = '-'
    elif mig_shape == 'flat':
        m_tok = 'flat:' + ','.join(f'{p}>{q}={C.rs(v)}' for (p, q), v in migration.items())
    else:
        m_tok = '|'.join(f'{p}>{q}@{ch_tok(ch)}' for (p, q), ch in migration.items())
    return n_tok, n_len, s_tok, m_tok


def config_glue(ctx, rng, variant=None):
    """The glue between the user's containers and the tables the transitions use (Lean: PGModel/Config.lean, driver
    command `config`): a REAL `Coalescent(n=…, demography=Demography(pop_sizes=…, migration_rates=…))` is built from
    randomly named / ordered / shaped containers; the deme axis, the initial lineage vector, and - read back from the rate
    matrix `S` of the lineage-counting state space after `update_epoch(get_epoch(t))` - the population size used for every
    axis position and the migration rate used for every ordered pair of axis positions, and the axis position
    `DemeReward(name)` resolves to, are compared with the model.  The real iteration order of the `set` of unsampled
    populations is passed to the model as `setOrder`."""
    import os
    pg = C.import_phasegen()
    from phasegen.rewards import DemeReward
    variant = variant or os.environ.get('VERIF_CFG_VARIANT', 'c')
    n, pop_sizes, migration, size_shape, mig_shape = _cfg_input(rng)
    n_arg = n.copy() if isinstance(n, (dict, list, np.ndarray)) else n
    # the fourth documented way of giving the sample: a LineageConfig object (built from the same container; chosen from the
    # input itself, no extra random draw) - populations it omits are completed exactly as for a dict
    if random.Random(repr(n) + size_shape + mig_shape).random() < 0.35:
        n_arg = pg.LineageConfig(n_arg)
        ctx.count('config:n-as-LineageConfig-object')
    coal = pg.Coalescent(n=n_arg, demography=pg.Demography(pop_sizes=pop_sizes, migration_rates=migration))
    axis = list(coal.lineage_config.pop_names)
    init = [int(x) for x in coal.lineage_config.lineages]
    D = len(axis)
    # --- request
    n_tok, n_len, s_tok, m_tok = _cfg_tokens(n, pop_sizes, migration, size_shape, mig_shape)
    set_order = axis[n_len:]
    so_tok = ','.join(set_order) if set_order else '-'
    ctx.count('config-cases'); ctx.count(f'config:sizes-{size_shape}'); ctx.count(f'config:mig-{mig_shape}')
    ctx.count(f'config:n-{type(n).__name__}')
    if axis != sorted(axis):
        ctx.count('config:axis-not-sorted')
    if len(set_order) >= 2:
        ctx.count('config:two-or-more-appended')
        if set_order != sorted(set_order):
            ctx.count('config:set-order-not-sorted')
    if isinstance(n, dict) and any(c == 0 for c in n.values()):
        ctx.count('config:unsampled-listed-with-0')
    if set_order:
        ctx.count('config:unsampled-omitted')
    # --- the real tables, read back from the rate matrix
    ss = coal.lineage_counting_state_space
    L = np.array(ss.lineages)[:, 0, :, 0]
    def idx(vec):
        hit = np.where((L == np.array(vec)).all(axis=1))[0]
        assert len(hit) == 1, (vec, hit)
        return int(hit[0])
    def unit(d, m=1):
        v = [0] * D; v[d] = m; return v
    one = [idx(unit(d)) for d in range(D)]
    two = [idx(unit(d, 2)) for d in range(D)]
    # DemeReward(name): the axis position whose single-lineage state has reward 1
    deme_real = []
    for p in axis:
        r = np.array(DemeReward(p)._get(ss), dtype=float)
        hit = [d for d in range(D) if r[one[d]] == 1.0]
        deme_real.append(hit[0] if len(hit) == 1 else -1)
    times = sorted({Fraction(0)} | {rng.choice(_CFG_TIMES) for _ in range(2)} | {rng.choice(_CFG_TIMES) + Fraction(1, 8) for _ in range(2)})
    info = dict(n=n, pop_sizes=pop_sizes, migration_rates={f'{p}>{q}': v for (p, q), v in (migration or {}).items()}, axis=axis)
    for t in times:
        line = f'config {variant} {n_tok} {s_tok} {m_tok} {so_tok} {C.rs(t)}'
        try:
            ans = C.driver().ask(line)
        except RuntimeError as e:
            ctx.corr_break('config-glue', what='model rejects the real set order / request', request=line, error=str(e), **info)
            return
        f = dict(tok.split('=', 1) for tok in ans.split(' '))
        m_axis = f['axis'].split(',')
        m_init = [int(x) for x in f['init'].split(',')]
        m_sizes = [Fraction(x) for x in f['sizes'].split(',')]
        m_mig = [[Fraction(x) for x in row.split(',')] for row in f['mig'].split(';')]
        m_deme = [int(x) for x in f['deme'].split(',')]
        ss.update_epoch(coal.demography.get_epoch(float(t)))
        S = np.array(ss.S, dtype=float)
        bad = []
        if m_axis != axis:
            bad.append(('axis', m_axis, axis))
        if m_init != init:
            bad.append(('init', m_init, init))
        if m_deme != deme_real:
            bad.append(('deme', m_deme, deme_real))
        if not bad:
            for d in range(D):
                # coalescence of the two lineages in deme d: Kingman rate 1 / time scale, time scale = population size
                real, want = float(S[two[d], one[d]]), 1.0 / float(m_sizes[d])
                if not C.close(real, want, 1e-12):
                    bad.append(('size', d, axis[d], f'1/{1.0 / real if real else None}', str(m_sizes[d])))
                for e in range(D):
                    if e != d:
                        real, want = float(S[one[d], one[e]]), float(m_mig[d][e])
                        if not C.close(real, want, 1e-12):
                            bad.append(('mig', d, e, axis[d], axis[e], real, str(m_mig[d][e])))
        ctx.count('config-queries')
        if bad:
            ctx.corr_break('config-glue', request=line, t=str(t), mismatches=bad[:6], model=ans, **info)
            return
    return info


# ------------------------------------------------------------------------------------------ named input -> epoch schedule (C08 / C05)
# dyadic pools: every float is an exact rational, both sides are compared exactly
_CFGE_SIZES = [Fraction(1, 4), Fraction(1, 2), Fraction(3, 4), Fraction(3, 2), 2, 3, 5, 7, Fraction(5, 8), Fraction(9, 8)]
_CFGE_RATES = [0, 0, 0, Fraction(1, 8), Fraction(1, 4), Fraction(1, 2), 1, Fraction(5, 4), 2, 3, Fraction(3, 8), Fraction(11, 16)]
_CFGE_TIMES = [0, 0, Fraction(1, 4), Fraction(1, 2), 1, Fraction(3, 2), 2, Fraction(7, 2)]


def cfg_epochs(ctx, rng):
    """The TRANSLATION of the user's named change dictionaries into the event list of the demography model (Lean:
    `EndToEnd.toEvents`, `EndToEnd.tableOfEpoch` in PGModel/ConfigDemo.lean, driver command `cfgepochs`) against the
    real constructors: a REAL `Coalescent(n=…, demography=Demography(pop_sizes=…, migration_rates=…))` is built from
    randomly named / ordered / shaped containers (generator of `config_glue`, dyadic values) and the epochs of
    `coal.demography.epochs` -- start, end, `pop_sizes` by name and `migration_rates` by pair, read in the order of the
    deme axis `coal.lineage_config.pop_names` -- are compared EXACTLY with the epochs the demography model generates from
    the translated input.  The real iteration order of the `set` of unsampled populations is passed as `setOrder`."""
    pg = C.import_phasegen()
    times_pool = sorted(set(_CFGE_TIMES), key=lambda t: rng.random()) if rng.random() < 0.5 else _CFGE_TIMES
    n, pop_sizes, migration, size_shape, mig_shape = _cfg_input(rng, _CFGE_SIZES, _CFGE_RATES, times_pool[:rng.randint(3, len(times_pool))])
    n_arg = n.copy() if isinstance(n, (dict, list, np.ndarray)) else n
    coal = pg.Coalescent(n=n_arg, demography=pg.Demography(pop_sizes=pop_sizes, migration_rates=migration))
    axis = list(coal.lineage_config.pop_names)
    n_tok, n_len, s_tok, m_tok = _cfg_tokens(n, pop_sizes, migration, size_shape, mig_shape)
    set_order = axis[n_len:]
    so_tok = ','.join(set_order) if set_order else '-'
    count = rng.randint(1, 3) if rng.random() < 0.2 else 12
    # --- coverage
    full_s = pop_sizes if size_shape == 'full' else {}
    full_m = migration if mig_shape == 'full' else {}
    changes = [(('s', p), t, v) for p, ch in full_s.items() for t, v in ch.items()] + \
              [(('m', pq), t, v) for pq, ch in full_m.items() for t, v in ch.items()]
    ctx.count('cfgepochs-cases'); ctx.count(f'cfgepochs:sizes-{size_shape}'); ctx.count(f'cfgepochs:mig-{mig_shape}')
    ctx.count(f'cfgepochs:n-{type(n).__name__}')
    if axis != sorted(axis):
        ctx.count('cfgepochs:axis-not-sorted')
    if set_order:
        ctx.count('cfgepochs:unsampled-omitted')
    if isinstance(n, dict) and any(c == 0 for c in n.values()):
        ctx.count('cfgepochs:unsampled-listed-with-0')
    if any(t == 0 for _, t, _ in changes):
        ctx.count('cfgepochs:change-at-time-0')
    if any(t > 0 for _, t, _ in changes) and not any(t == 0 for k, t, _ in changes):
        ctx.count('cfgepochs:no-change-at-time-0')
    by_time = {}
    for k, t, _ in changes:
        by_time.setdefault(t, set()).add(k)
    if any(len(ks) >= 2 for ks in by_time.values()):
        ctx.count('cfgepochs:several-keys-at-the-same-time')
    if any(len(ks) >= 2 and t > 0 and {k[0] for k in ks} == {'s', 'm'} for t, ks in by_time.items()):
        ctx.count('cfgepochs:size-and-rate-at-the-same-positive-time')
    if any(k[0] == 'm' and t > 0 and v == 0 for k, t, v in changes):
        ctx.count('cfgepochs:zero-rate-set-at-positive-time')
    if any(p not in (pop_sizes if isinstance(pop_sizes, dict) else {}) for pq in (migration or {}) for p in pq):
        ctx.count('cfgepochs:name-only-in-migration-keys')
    listed = list(n) if isinstance(n, dict) else [f'pop_{i}' for i in range(n_len)]
    known = set(pop_sizes if isinstance(pop_sizes, dict) else (['pop_0'] if pop_sizes is not None else [])) | {p for pq in (migration or {}) for p in pq}
    if any(p not in known for p in listed):
        ctx.count('cfgepochs:sample-only-name')
    # --- the real epochs (the generator ends with the epoch whose end time is inf)
    real = []
    for ep in coal.demography.epochs:
        if len(real) == count:
            break
        real.append(ep)
        if math.isinf(ep.end_time):
            break
    info = dict(n=n, pop_sizes=pop_sizes, migration_rates={f'{p}>{q}': v for (p, q), v in (migration or {}).items()}, axis=axis,
                count=count)
    line = f'cfgepochs {n_tok} {s_tok} {m_tok} {so_tok} {count}'
    try:
        ans = C.driver().ask(line)
    except RuntimeError as e:
        ctx.corr_break('cfg-epochs', what='model rejects the real set order / request', request=line, error=str(e), **info)
        return
    toks = ans.split(' ')
    m_axis = toks[0].split('=', 1)[1].split(',')
    model = []
    for tok in toks[1:]:
        span, sz, mg = tok.split('|')
        a, b = span.split(',')
        model.append((Fraction(a), None if b == 'inf' else Fraction(b), [Fraction(x) for x in sz.split(',')],
                      [[Fraction(x) for x in row.split(',')] for row in mg.split(';')]))
    bad = []
    if m_axis != axis:
        bad.append(('axis', m_axis, axis))
    if len(model) != len(real):
        bad.append(('number of epochs', len(model), len(real)))
    if not bad:
        for i, (ep, (m_start, m_stop, m_sizes, m_mig)) in enumerate(zip(real, model)):
            r_start = Fraction(float(ep.start_time))
            r_stop = None if math.isinf(ep.end_time) else Fraction(float(ep.end_time))
            if (r_start, r_stop) != (m_start, m_stop):
                bad.append(('span', i, (str(m_start), str(m_stop)), (str(r_start), str(r_stop))))
                continue
            if set(ep.pop_sizes) != set(axis):
                bad.append(('epoch.pop_sizes keys', i, sorted(ep.pop_sizes), sorted(axis)))
                continue
            for d, p in enumerate(axis):
                if Fraction(float(ep.pop_sizes[p])) != m_sizes[d]:
                    bad.append(('size', i, p, str(m_sizes[d]), float(ep.pop_sizes[p])))
                for e, q in enumerate(axis):
                    if (p, q) not in ep.migration_rates:
                        bad.append(('rate missing in epoch.migration_rates', i, p, q, str(m_mig[d][e])))
                    elif Fraction(float(ep.migration_rates[(p, q)])) != m_mig[d][e]:
                        bad.append(('rate', i, p, q, str(m_mig[d][e]), float(ep.migration_rates[(p, q)])))
            ctx.count('cfgepochs-epochs-compared')
    ctx.count(f'cfgepochs:epochs-{len(real)}')
    if real and not math.isinf(real[-1].end_time):
        ctx.count('cfgepochs:truncated-by-count')
    if bad:
        ctx.corr_break('cfg-epochs', request=line, mismatches=bad[:6], model=ans, **info)
        return
    return info


# ------------------------------------------------------------------------------------------ distribution-level memoisation (C17 / C15 f)
def _memo_pool(R, two_demes, target):
    """rewards as (model syntax, constructor) pairs; the pool is built around the pairs that COLLIDE under the seeded key
    defects: Sum([A,A,B]) / Sum([A,B]) / Sum([A,B,B]) / Sum([B,A]) (children as a set), Product([Unit,TH]) /
    Product([Unit,TBL]) (stateless rewards hashing alike inside composites), the same rewards in another order, nested."""
    atoms = [('th', R.TreeHeightReward), ('tbl', R.TotalBranchLengthReward), ('u', R.UnitReward), ('d0', lambda: R.DemeReward('pop_0'))]
    if two_demes:
        atoms.append(('d1', lambda: R.DemeReward('pop_1')))
    if target == 'th':
        # TotalTreeHeightReward is built from LocusReward: lineage-counting state space only
        atoms += [('tth', R.TotalTreeHeightReward), ('l2', lambda: R.LineageReward(2)), ('l3', lambda: R.LineageReward(3))]
    else:
        atoms += [('s1', lambda: R.UnfoldedSFSReward(1)), ('s2', lambda: R.UnfoldedSFSReward(2)), ('f1', lambda: R.FoldedSFSReward(1)),
                  ('f2', lambda: R.FoldedSFSReward(2))]
    return atoms


def _memo_reward(rng, atoms, depth=0, family=None):
    """(syntax, thunk, family) of a random reward; composites come from collision-prone families: a family is
    (kind, a, b) and its members are the child lists [a,b] [b,a] [a,a,b] [a,b,b] [a,b,a] [a] [a,a] [Unit,a] [Unit,b] [a,Unit]"""
    if family is None and (depth >= 2 or rng.random() < (0.45 if depth == 0 else 0.7)):
        return rng.choice(atoms[:3] if rng.random() < 0.6 else atoms) + (None,)
    if family is None:
        kind = rng.choice(['S', 'S', 'P'])
        a, b = rng.sample(atoms[:3] if rng.random() < 0.7 else atoms, 2)
        if rng.random() < 0.25:
            b = _memo_reward(rng, atoms, depth + 1)[:2]
        family = (kind, a, b)
    kind, a, b = family
    u = atoms[2]
    shape = rng.choice([[a, b], [b, a], [a, a, b], [a, b, b], [a, b, a], [a], [a, a], [u, a], [u, b], [a, u]])
    name = 'SumReward' if kind == 'S' else 'ProductReward'
    syn = f"{kind}({','.join(x[0] for x in shape)})"
    def mk(shape=shape, name=name):
        import phasegen.rewards as R
        return getattr(R, name)([x[1]() for x in shape])
    return (syn, mk, family)


def _memo_sibling(rng, atoms, r):
    """a reward that may collide with `r` under a defective key scheme: another member of its family / another stateless atom"""
    if r[2] is not None:
        return _memo_reward(rng, atoms, family=r[2])
    return rng.choice(atoms[:3]) + (None,) if rng.random() < 0.5 else r


def _memo_caches(D):
    """the `functools.cache` objects: `@_make_hashable @cache def f` -> `Class.f.__wrapped__` is the lru wrapper (`_make_hashable`
    uses functools.wraps); `_get_P` is decorated with `@cache` only"""
    return dict(ptd=D.PhaseTypeDistribution.moment.__wrapped__, acc=D.PhaseTypeDistribution._accumulate.__wrapped__,
                sfs=D.SFSDistribution.moment.__wrapped__, coal=D.Coalescent.moment.__wrapped__, p=D.SFSDistribution._get_P)


def _memo_arr(x):
    return np.atleast_1d(np.asarray(x.data if hasattr(x, 'data') and not isinstance(x, np.ndarray) else x, dtype=float)).copy()


def _memo_same(a, b):
    if a is None or b is None or a.shape != b.shape:
        return False
    return all((math.isnan(u) and math.isnan(v)) or C.close(u, v, 1e-12, 1e-14) for u, v in zip(a.ravel(), b.ravel()))


def memo_history(ctx, rng, n_queries=8, origin=None):
    """A random history of queries on ONE real distribution object (`coal.tree_height`, `coal.sfs`, or the `Coalescent`
    itself; n = 4) against the model `PGModel/Memo.lean` (driver command `memo`, variant `current` or the one named by
    VERIF_MEMO_VARIANT).  Nothing is patched: hits and misses are read off `cache_info()` of the `functools.cache` wrappers
    (`PhaseTypeDistribution.moment`, `._accumulate`, `SFSDistribution.moment`, `Coalescent.moment`, `SFSDistribution._get_P`)
    before and after every query, property slots off the instance `__dict__`.  The caches are cleared at the start of the
    history and again at its end (they are process-global).  Compared:
      (a) per query the hit/miss flag and the hit / miss counts of the object's `moment` memo (and of `_accumulate` for
          `tree_height`, where the model mirrors the call structure of `accumulate`) with the model's;
      (b) every answer with the answer of a FRESH Coalescent asked only that query (1e-12) - for a variant other than
          `current` with the value the model predicts (the fresh value of the query it names).
    Calls are made with keyword arguments in signature order and omitted arguments are not passed (the key of
    `functools.cache` is the call as written); histories contain SIBLINGS of earlier calls (all arguments equal but the
    rewards, which are replaced by members of the same collision family)."""
    pg = C.import_phasegen()
    import phasegen.distributions as D
    import phasegen.rewards as R
    variant = os.environ.get('VERIF_MEMO_VARIANT', 'current')
    target = rng.choice(['th', 'th', 'sfs', 'sfs', 'coal'])
    two = rng.random() < 0.35
    def mk_coal():
        if two:
            return pg.Coalescent(n={'pop_0': 2, 'pop_1': 2}, demography=pg.Demography(
                pop_sizes={'pop_0': 1.0, 'pop_1': 2.0}, migration_rates={('pop_0', 'pop_1'): 0.5, ('pop_1', 'pop_0'): 0.25}),
                parallelize=False, pbar=False)
        return pg.Coalescent(n=4, parallelize=False, pbar=False)
    def obj_of(coal):
        return dict(th=lambda: coal.tree_height, sfs=lambda: coal.sfs, coal=lambda: coal)[target]()
    atoms = _memo_pool(R, two, target)
    coal = mk_coal()
    obj = obj_of(coal)
    tmax = float(coal.tree_height.t_max)            # computed BEFORE the caches are cleared and counted
    # ---- the history
    qs = []
    recent = []
    def tuple_of(k):
        out = []
        for _ in range(k):
            if recent and rng.random() < 0.3:
                out.append(rng.choice(recent))
            else:
                out.append(_memo_reward(rng, atoms))
                recent.append(out[-1])
        return out
    for _ in range(n_queries):
        kinds = ['m'] * 6 + {'th': ['a', 'a', 'mean', 'var'], 'sfs': ['mean', 'var', 'cov', 'corr', 'corr', 'cov', 'p', 'p'], 'coal': []}[target]
        kind = rng.choice(kinds)
        if qs and rng.random() < 0.2:
            qs.append(rng.choice(qs)); continue                       # ask an earlier query again
        earlier = [q for q in qs if q[0] == kind and q[0] in ('m', 'a') and q[2 if kind == 'm' else 3]]
        if earlier and rng.random() < 0.45:
            # a SIBLING of an earlier call: all other arguments equal, the rewards replaced by possible key collisions
            q = list(rng.choice(earlier))
            j = 2 if kind == 'm' else 3
            q[j] = [_memo_sibling(rng, atoms, r) if rng.random() < 0.7 else r for r in q[j]]
            if rng.random() < 0.2:
                q[j] = q[j][::-1]
            qs.append(tuple(q)); continue
        if kind == 'm':
            k = rng.choice([1, 1, 1, 2, 2, 0] if target != 'th' else [1, 1, 1, 2, 2, 2, 3, 0])
            rew = None if rng.random() < 0.15 else tuple_of(k)
            start = rng.choice([None, None, None, 0.0, 0.5])
            end = rng.choice([None, None, 1.0, 2.0, tmax])
            center = rng.choice([None, True, False])
            permute = rng.choice([None, None, True, False])
            qs.append(('m', k, rew, start, end, center, permute))
        elif kind == 'a':
            k = rng.choice([1, 2, 2, 3])
            qs.append(('a', k, rng.choice([[1.0], [2.0], [0.5, 1.0], [tmax]]), tuple_of(k), rng.random() < 0.5))
        elif kind == 'p':
            qs.append(('p', rng.choice([0.5, 1.0, 2.0])))
        else:
            qs.append((kind,))
    def tok(q):
        o = lambda x, f: '-' if x is None else f(x)
        if q[0] == 'm':
            rew = '-' if q[2] is None else (';'.join(r[0] for r in q[2]) if q[2] else '()')
            return f"m:{q[1]}:{rew}:{o(q[3], C.rs)}:{o(q[4], C.rs)}:{o(q[5], lambda b: int(b))}:{o(q[6], lambda b: int(b))}"
        if q[0] == 'a':
            return f"a:{q[1]}:{C.rlist(q[2])}:{';'.join(r[0] for r in q[3])}:{int(q[4])}"
        if q[0] == 'p':
            return f"p:{C.rs(q[1])}"
        return q[0]
    def ask(o, q):
        if q[0] == 'm':
            kw = dict(k=q[1])                                            # keyword arguments in signature order, omitted = not passed
            if q[2] is not None: kw['rewards'] = tuple(r[1]() for r in q[2])
            if q[3] is not None: kw['start_time'] = q[3]
            if q[4] is not None: kw['end_time'] = q[4]
            if q[5] is not None: kw['center'] = q[5]
            if q[6] is not None: kw['permute'] = q[6]
            return o.moment(**kw)
        if q[0] == 'a':
            return o.accumulate(q[1], list(q[2]), tuple(r[1]() for r in q[3]), center=False, permute=q[4])
        if q[0] == 'p':
            return o.get_mutation_config([1, 0, 0], q[1])
        return getattr(o, q[0])
    caches = _memo_caches(D)
    top = caches[dict(th='ptd', sfs='sfs', coal='coal')[target]]
    for c in caches.values():
        c.cache_clear()
    real, flags = [], []
    try:
        with C.LogCapture():
            for q in qs:
                t0, a0, p0 = top.cache_info(), caches['acc'].cache_info(), caches['p'].cache_info()
                slot = (q[0] in obj.__dict__) if len(q) == 1 else None
                try:
                    real.append(_memo_arr(ask(obj, q)))
                except Exception as e:
                    real.append(None)
                    ctx.count('memo-query-raised:' + type(e).__name__)
                t1, a1, p1 = top.cache_info(), caches['acc'].cache_info(), caches['p'].cache_info()
                dmh, dmm, dah, dam = t1.hits - t0.hits, t1.misses - t0.misses, a1.hits - a0.hits, a1.misses - a0.misses
                hit = {'m': dmm == 0, 'a': dam == 0, 'p': p1.hits > p0.hits}.get(q[0], slot)
                flags.append(('h' if hit else 'm', dmh, dmm, dah, dam))
            # ---- the direct oracle: a fresh Coalescent per distinct query, asked only that query
            fresh = {}
            for q in qs:
                t = tok(q)
                if t not in fresh:
                    try:
                        fresh[t] = _memo_arr(ask(obj_of(mk_coal()), q))
                    except Exception:
                        fresh[t] = None
    finally:
        for c in caches.values():
            c.cache_clear()
    toks = [tok(q) for q in qs]
    # `tree_height`: the model mirrors the `_accumulate` calls and needs the default end time; a `Coalescent` builds a new
    # lower distribution per call (`_get_dist`): its `_accumulate` entries are never seen again
    opts = f"tmax={C.rs(C.frac(tmax))} " if target == 'th' else ('lower=fresh ' if target == 'coal' else '')
    line = f"memo {variant} {opts}{' '.join(toks)}"
    ans = C.driver().ask(line)
    _, m_flags, m_verdicts = [part.strip().split() for part in ans.split('|')]
    ctx.count('memo-histories'); ctx.count(f'memo-target:{target}'); ctx.count('memo-queries', len(qs))
    bad = []
    for i, (q, f, mf, mv) in enumerate(zip(qs, flags, m_flags, m_verdicts)):
        if real[i] is None:
            bad.append((i, toks[i], 'query raised on the real object')); continue
        mh, mdmh, mdmm, mdah, mdam = mf.split('/')
        ctx.count(f'memo-flag:{q[0]}:{f[0]}')
        # (a) hit / miss pattern: flag and moment-memo counts always; `_accumulate` counts where the model mirrors the call structure
        mine = (f[0], f[1], f[2]) + ((f[3], f[4]) if target == 'th' else ())
        theirs = (mh, int(mdmh), int(mdmm)) + ((int(mdah), int(mdam)) if target == 'th' else ())
        if q[0] == 'a' and target != 'th':
            mine = theirs = ()
        if mine != theirs:
            bad.append((i, toks[i], 'hit/miss', dict(real=mine, model=theirs)))
        # (b) the answer
        if mv == '=':
            want, what = fresh[toks[i]], 'fresh object'
        elif mv.startswith('q'):
            want, what = fresh[toks[int(mv[1:])]], f'model: fresh value of query {mv[1:]}'
        elif mv.startswith('a'):
            want, what = real[int(mv[1:])], f'model: the answer given to query {mv[1:]}'
        else:
            want, what = None, 'model: a wrong value'
        if want is None and mv == 'x':
            # the model predicts a value that is no fresh value and no earlier answer (e.g. a collision INSIDE one call, which a
            # fresh object of the tree under test suffers as well): nothing to compare with
            ctx.count('memo-model-predicts-unnamed-wrong-value')
        elif (not _memo_same(real[i], want) and mv == '=' and target == 'sfs' and q[0] != 'p'
              and ('frozenset' in variant or 'baseclass' in variant)):
            # demonstration runs on a tree with a seeded reward-key defect only: `SFSDistribution.moment` (hence `mean`, `var`)
            # and `cov` call `PhaseTypeDistribution.moment` once per bin (pair of bins) on `CombinedReward([r, sfs_i])` keys - a
            # memo layer below the two the model has; collisions THERE are outside the model (never skipped for variant `current`)
            ctx.count('memo-sfs-lower-layer-collision-not-modelled')
        elif not _memo_same(real[i], want):
            bad.append((i, toks[i], 'answer', dict(expected=what, want=None if want is None else want.tolist(), real=real[i].tolist())))
        if mv != '=':
            ctx.count('memo-model-predicts-wrong-answer')
    # an answer that differs from the one a FRESH object gives to the same query is a concrete failing history of the property
    # itself (the model agrees that a fresh answer is due: verdict '='), not only a disagreement with the model
    wrong = [b for b in bad if b[2] == 'answer' and m_verdicts[b[0]] == '=']
    if wrong and variant == 'current':
        i, t, _, d = wrong[0]
        ctx.violation('memo:answer-depends-on-history', mode='memo', memo_origin=origin, target=target, two_demes=two,
                      history=toks[:i + 1], query=t, answered=d['real'], fresh_object_answers=d['want'])
    if bad:
        ctx.corr_break('memo-history', request=line, model=ans, target=target, two_demes=two,
                       mismatches=sorted(bad, key=lambda b: b[2] != 'answer')[:6])
    return line


# ------------------------------------------------------------------------------------------ state-space sharing (C17/C19)
def _share_key(cls, cfg):
    nl, nu, rec = cfg['loci']
    m, ps = cfg['model']
    return (f"{cls};{','.join(f'{p}={n}' for p, n in cfg['lin'])};{nl};{nu};{C.rs(rec)};{m};"
            f"{','.join(C.rs(x) for x in ps) if ps else '-'}")


def _share_pool(rng):
    """a base configuration and variants that differ from it in exactly ONE field of the state-space key"""
    two_demes = rng.random() < 0.5
    fam = rng.choice(['one-locus', 'one-locus', 'two-loci'])
    if fam == 'one-locus':
        lin = [('a', 2), ('b', 1)] if two_demes else [('pop_0', 3)]
        model = rng.choice([('standard', []), ('beta', [1.5, 1]), ('dirac', [0.5, 1.0, 1])])
        base = dict(lin=lin, loci=(1, 0, 0.0), model=model)
        var = [dict(base, lin=[(lin[0][0], lin[0][1] + 1)] + lin[1:])]                       # n
        if two_demes:
            var.append(dict(base, lin=[('a', 1), ('b', 2)]))                                   # n per deme
            var.append(dict(base, lin=[('b', 1), ('a', 2)]))                                   # order of the demes
        if model[0] == 'standard':
            var.append(dict(base, loci=(2, 0, 0.0)))                                           # loci
            var.append(dict(base, model=('beta', [1.5, 1])))                                   # model class
        elif model[0] == 'beta':
            var.append(dict(base, model=('beta', [1.25, 1])))                                  # model parameter
            var.append(dict(base, model=('beta', [1.5, 0])))
            var.append(dict(base, model=('standard', [])))
        else:
            var.append(dict(base, model=('dirac', [0.25, 1.0, 1])))
            var.append(dict(base, model=('dirac', [0.5, 2.0, 1])))
            var.append(dict(base, model=('dirac', [0.5, 1.0, 0])))
    else:
        lin = [('a', 1), ('b', 1)] if two_demes else [('pop_0', rng.choice([2, 3]))]
        base = dict(lin=lin, loci=(2, 0, 1.0), model=('standard', []))
        var = [dict(base, loci=(2, 0, 2.0)),                                                   # recombination rate
               dict(base, loci=(2, 1, 1.0)),                                                   # n_unlinked
               dict(base, loci=(1, 0, 1.0)),                                                   # loci
               dict(base, lin=[(lin[0][0], lin[0][1] + 1)] + lin[1:])]                         # n
        if two_demes:
            var.append(dict(base, lin=[('b', 1), ('a', 1)]))                                   # order of the demes
    rng.shuffle(var)
    pool = [base] + var[:rng.randint(2, 4)]
    rng.shuffle(pool)
    return fam, two_demes, pool


def share_history(ctx, rng, n_ops=14, variant='c'):
    """`Inference.get_coal`: random interleavings of `get_coal` and of operations on the state spaces of the coalescents
    handed out; which configuration's rate matrix every read of `S` returns is compared with the model (driver `share`)."""
    pg = C.import_phasegen()
    from phasegen.state_space import LineageCountingStateSpace, BlockCountingStateSpace
    from phasegen.lineage import LineageConfig
    from phasegen.locus import LocusConfig
    from phasegen.demography import Epoch
    fam, two, pool = _share_pool(rng)
    use = rng.random() < 0.7
    n_ep = rng.choice([2, 3])
    two_epochs = rng.random() < 0.5
    if two:
        tab = [({'a': 1.0, 'b': 2.0}, {('a', 'b'): 0.5, ('b', 'a'): 0.25}), ({'a': 3.0, 'b': 2.0}, {('a', 'b'): 0.5, ('b', 'a'): 0.25}),
               ({'a': 1.0, 'b': 2.0}, {('a', 'b'): 1.5, ('b', 'a'): 0.25})][:n_ep]
    else:
        tab = [({'pop_0': 1.0}, {}), ({'pop_0': 2.0}, {}), ({'pop_0': 0.5}, {})][:n_ep]
    epochs = [Epoch(start_time=0.0, end_time=1.5, pop_sizes=dict(sz), migration_rates=dict(mg)) for sz, mg in tab]

    def mk_model(m):
        name, ps = m
        if name == 'standard':
            return pg.StandardCoalescent()
        if name == 'beta':
            return pg.BetaCoalescent(alpha=ps[0], scale_time=bool(ps[1]))
        return pg.DiracCoalescent(psi=ps[0], c=ps[1], scale_time=bool(ps[2]))

    def mk_dem(e):
        sz, mg = tab[e]
        sz2, mg2 = tab[(e + 1) % n_ep]
        if two_epochs:
            return pg.Demography(pop_sizes={p: {0: v, 1.5: sz2[p]} for p, v in sz.items()},
                                 migration_rates={k: {0: v, 1.5: mg2[k]} for k, v in mg.items()} if mg else None)
        return pg.Demography(pop_sizes=dict(sz), migration_rates=dict(mg) if mg else None)

    def coal(idx, ep):
        cfg = pool[int(round(idx))]
        nl, nu, rec = cfg['loci']
        return pg.Coalescent(n=dict(cfg['lin']), model=mk_model(cfg['model']), demography=mk_dem(int(round(ep))),
                             loci=LocusConfig(n=nl, n_unlinked=nu, recombination_rate=rec), parallelize=False, pbar=False)

    # rate matrices on FRESH state spaces, by (class, configuration, epoch)
    fresh = {}
    for ci, cfg in enumerate(pool):
        nl, nu, rec = cfg['loci']
        for cls, K in (('L', LineageCountingStateSpace), ('B', BlockCountingStateSpace)):
            if cls == 'B' and nl != 1:
                continue
            for ei, ep in enumerate(epochs):
                f = K(lineage_config=LineageConfig(dict(cfg['lin'])), locus_config=LocusConfig(n=nl, n_unlinked=nu, recombination_rate=rec),
                      model=mk_model(cfg['model']), epoch=ep)
                fresh[(cls, ci, ei)] = np.array(f.S)
    keys = {cls: [_share_key(cls, cfg) for cfg in pool] for cls in 'LB'}
    x0 = (rng.randrange(len(pool)), rng.randrange(n_ep))
    inf = pg.Inference(bounds=dict(idx=(0.0, float(len(pool))), ep=(0.0, float(n_ep))), x0=dict(idx=float(x0[0]), ep=float(x0[1])),
                       coal=coal, loss=lambda c, o: 0.0, n_runs=1, parallelize=False, pbar=False, seed=1, cache=use)
    handles, ops, reads, raised = [], [], {'L': [], 'B': []}, False
    disciplined = rng.random() < 0.6
    for _ in range(n_ops):
        if not handles or rng.random() < 0.3:
            ci, ei = rng.randrange(len(pool)), rng.randrange(n_ep)
            ops.append(('g', ci, ei))
            try:
                handles.append((ci, inf.get_coal(idx=float(ci), ep=float(ei))))
            except NotImplementedError:
                raised = True
                break
            continue
        i = rng.randrange(len(handles))
        ci, c = handles[i]
        cls = rng.choice('LB') if pool[ci]['loci'][0] == 1 else 'L'
        ss = c.lineage_counting_state_space if cls == 'L' else c.block_counting_state_space
        seq = [f'u{rng.randrange(n_ep)}', 's'] if disciplined and rng.random() < 0.7 else [rng.choice(['u', 's', 's', 'd', 'c', 't'])]
        for o in seq:
            if o == 'u':
                o = f'u{rng.randrange(n_ep)}'
            ops.append(('q', cls, i, o))
            if o[0] == 'u':
                ss.update_epoch(epochs[int(o[1:])])
            elif o == 's':
                S = np.array(ss.S)
                hits = [(k[1], k[2]) for k, F in fresh.items() if k[0] == cls and F.shape == S.shape and np.allclose(F, S, rtol=1e-12, atol=0)]
                reads[cls].append(dict(handle=i, own=ci, hits=hits))
            elif o == 'd':
                ss.drop_S()
            elif o == 'c':
                ss.drop_cache()
            else:
                _ = ss.states
    ctx.count('share-histories'); ctx.count(f'share:{fam}:{"two-demes" if two else "one-deme"}:cache{int(use)}')
    if raised:
        ctx.count('share-get_coal-raises')
    bad = []
    for cls in 'LB':
        toks = []
        for j, o in enumerate(ops):
            if o[0] == 'g':
                if raised and j == len(ops) - 1 and cls == 'L':
                    continue        # the raising call hands nothing out; only the block-counting slice of the model knows why
                toks.append(f'g:{keys[cls][o[1]]}@{o[2]}')
            elif o[1] == cls:
                toks.append(f'q:{o[2]}:{o[3]}')
        line = f"share {variant} {int(use)} {keys[cls][x0[0]]}@{x0[1]} {' '.join(toks)}"
        ans = C.driver().ask(line).split()
        if ans == ['-']:
            ans = []
        model_raises = bool(ans) and ans[-1] == 'raise'
        if model_raises:
            ans = ans[:-1]
        if cls == 'B' and model_raises != raised:
            bad.append(dict(cls=cls, why='get_coal raises', model=model_raises, real=raised, request=line))
            continue
        if len(ans) != len(reads[cls]):
            bad.append(dict(cls=cls, why='number of reads', model=len(ans), real=len(reads[cls]), request=line))
            continue
        for a, r in zip(ans, reads[cls]):
            k, e = a.rsplit('@', 1)
            pred = (keys[cls].index(k), int(e))
            ctx.count('share-reads')
            if len({h[0] for h in r['hits']}) > 1:
                ctx.count('share-reads-matrix-common-to-several-configurations')
            if pred[0] != r['own']:
                ctx.count('share-model-predicts-foreign-matrix')
            if pred not in r['hits']:
                bad.append(dict(cls=cls, handle=r['handle'], own_config=pool[r['own']], model=dict(config=pool[pred[0]], epoch=pred[1]),
                                real=[dict(config=pool[h[0]], epoch=h[1]) for h in r['hits']], request=line))
    if bad:
        ctx.corr_break('share-history', variant=variant, cache=use, x0=dict(config=pool[x0[0]], epoch=x0[1]), mismatches=bad[:4])
    return ops


# ------------------------------------------------------------------------------------------ field-level serialisation (C18)
def _ser_hash(x):
    import hashlib
    return hashlib.sha1(repr(x).encode()).hexdigest()[:10]


def _ser_num(v):
    if v is None:
        return 'N'
    if isinstance(v, (bool, np.bool_)):
        return 'T' if v else 'F'
    return C.rs(C.frac(v))


def _ser_point(d):
    return 'N' if d is None else 'P:' + (','.join(f'{k}~{C.rs(C.frac(v))}' for k, v in d.items()) or '-')


def _ser_space(ss):
    cls = 'L' if type(ss).__name__.startswith('Lineage') else 'B'
    return f"S:{cls}:{len(ss._cache) + (1 if 'S' in ss.__dict__ else 0)}"


def _ser_coal_desc(c):
    m = c.model
    ps = {k: v for k, v in m.__dict__.items() if not k.startswith('_')}
    ep = [(float(e.start_time), float(e.end_time), sorted((str(k), float(v)) for k, v in e.pop_sizes.items()),
           sorted((str(k), float(v)) for k, v in e.migration_rates.items())) for e, _ in zip(c.demography.epochs, range(6))]
    return dict(model=f'{type(m).__name__}{sorted(ps.items())}', lineage_config=sorted((k, int(v)) for k, v in c.lineage_config.lineage_dict.items()),
                locus_config=(c.locus_config.n, c.locus_config.n_unlinked, float(c.locus_config.recombination_rate)), demography=ep)


def _ser_coal_tokens(c):
    """the `__dict__` of a Coalescent in the value syntax of the driver command `serial` (insertion order)"""
    desc = _ser_coal_desc(c)
    out = []
    for k, v in c.__dict__.items():
        if k in ('start_time', 'end_time', 'regularize', 'parallelize', 'pbar'):
            t = _ser_num(v)
        elif k in ('lineage_counting_state_space', 'block_counting_state_space'):
            t = _ser_space(v)
        elif k in desc:
            t = 'o:' + _ser_hash(desc[k])
        else:
            t = 'o:' + type(v).__name__          # logger, cached result distributions
        out.append(f'{k}={t}')
    return out


def _ser_inf_tokens(inf):
    out = []
    for k, v in inf.__dict__.items():
        if k in ('_x0', 'x0', 'params_inferred'):
            t = _ser_point(v)
        elif k in ('coal', 'loss', 'resample'):
            t = 'N' if v is None else f'f:{k}'
        elif k == '_rng':
            t = 'o:rng' + _ser_hash(v.bit_generator.state)
        elif k in ('n_runs', 'n_bootstraps', 'do_bootstrap', 'parallelize', 'pbar', 'cache', 'seed', 'loss_inferred', 'observation'):
            t = _ser_num(v)
        elif k == 'loss_runs':
            t = 'R:' + (','.join(C.rs(C.frac(x)) for x in np.asarray(v, dtype=float)) or '-')
        elif k in ('bounds', 'opts'):
            t = 'o:' + _ser_hash(sorted((a, tuple(b) if isinstance(b, (list, tuple)) else b) for a, b in v.items()))
        elif k == 'result':
            t = 'N' if v is None else 'o:' + _ser_hash((np.asarray(v.x, dtype=float).tolist(), float(v.fun)))
        elif k == 'dist_inferred':
            t = 'N' if v is None else 'o:' + _ser_hash(_ser_coal_desc(v))
        elif k == 'bootstraps':
            t = 'o:' + _ser_hash((list(v.columns), np.asarray(v.values, dtype=float).tolist()))
        elif k in ('_lineage_counting_state_space', '_block_counting_state_space'):
            t = 'o:' + type(v).__name__          # (their caches are saved as they are; not compared)
        else:
            t = 'o:' + type(v).__name__
        out.append(f'{k}={t}')
    return out


def _ser_roundtrip(cls, obj, route):
    if route == 'json':
        return cls.from_json(obj.to_json())
    import tempfile
    with tempfile.TemporaryDirectory(prefix='pgser') as tmp:
        path = os.path.join(tmp, 'obj.json')
        obj.to_file(path)
        return cls.from_file(path)


def serial_fields(ctx, rng, sv='c', gv='i'):
    """field by field: the `__dict__` of a REAL Coalescent / Inference after `from_json(to_json())` (or `to_file`/`from_file`)
    against the model's prediction (driver `serial`); plus a statistic (Coalescent) and the start point `x0` (Inference)."""
    pg = C.import_phasegen()
    import copy
    route = rng.choice(['json', 'file'])
    if rng.random() < 0.6:
        # ------------------------------------------------------------------ Coalescent
        two = rng.random() < 0.4
        loci = 2 if rng.random() < 0.25 else 1
        model = pg.StandardCoalescent() if loci == 2 else rng.choice([pg.StandardCoalescent(), pg.BetaCoalescent(alpha=rng.choice([1.25, 1.5, 1.75])),
                                                                      pg.DiracCoalescent(psi=rng.choice([0.25, 0.5]), c=rng.choice([1.0, 2.0]))])
        n = {'a': rng.randint(1, 2), 'b': rng.randint(1, 2)} if two else rng.randint(2, 4)
        t1 = rng.choice([0.5, 1.0, 2.0])
        if two:
            dem = pg.Demography(pop_sizes={'a': {0: 1.0, t1: rng.choice([0.5, 2.0])}, 'b': {0: rng.choice([1.0, 3.0])}},
                                migration_rates={('a', 'b'): rng.choice([0.25, 1.0]), ('b', 'a'): 0.5})
        else:
            dem = pg.Demography(pop_sizes={'pop_0': {0: rng.choice([1.0, 2.0]), t1: rng.choice([0.5, 3.0])} if rng.random() < 0.7 else rng.choice([1.0, 2.0])})
        kw = dict(start_time=rng.choice([0, 0.25, 1.5, 0.75]), end_time=rng.choice([None, None, 4.0, 12.5]), regularize=rng.random() < 0.5,
                  parallelize=rng.random() < 0.5, pbar=rng.random() < 0.3)
        c = pg.Coalescent(n=n, model=model, demography=dem, loci=pg.LocusConfig(n=2, recombination_rate=rng.choice([0.5, 1.0])) if loci == 2 else 1, **kw)
        stat = (lambda o: float(o.tree_height.mean)) if loci == 2 or rng.random() < 0.5 else (lambda o: float(np.sum(o.sfs.mean.data)))
        before_stat = stat(c) if rng.random() < 0.6 else None          # cached distributions and rate matrices in __dict__, or a bare object
        toks = _ser_coal_tokens(c)
        y = _ser_roundtrip(pg.Coalescent, c, route)
        ctx.count('serial-coalescent'); ctx.count(f'serial-coalescent:{route}:{"cached" if before_stat is not None else "bare"}')
        if kw['start_time'] != 0 or not kw['regularize']:
            ctx.count('serial-coalescent-non-default-start_time-or-regularize')
        if _ser_coal_tokens(c) != toks:
            ctx.corr_break('serial-fields', why='original altered', before=toks, after=_ser_coal_tokens(c))
        line = f"serial {sv} {gv} coal {' '.join(toks)}"
        model_ans = C.driver().ask(line).split()
        real = sorted(_ser_coal_tokens(y), key=lambda t: t.split('=')[0])
        if model_ans != real:
            diff = [(m, r) for m, r in zip(model_ans, real) if m != r] if len(model_ans) == len(real) else 'keys differ'
            ctx.corr_break('serial-fields', kind='coalescent', route=route, request=line, model=model_ans, real=real, diff=diff, kwargs=kw)
            return line
        for k, v in kw.items():                     # the public attributes themselves (not only their tokens)
            if getattr(y, k) != v and sv == 'c':
                ctx.corr_break('serial-fields', kind='coalescent', why=f'attribute {k}', expected=v, loaded=getattr(y, k))
        a, b = stat(c), stat(y)
        if sv == 'c' and not (abs(a - b) <= 1e-9 * max(1.0, abs(a)) and (before_stat is None or abs(a - before_stat) <= 1e-12 * max(1.0, abs(a)))):
            ctx.corr_break('serial-fields', kind='coalescent', why='statistic', original=a, loaded=b, before_saving=before_stat, kwargs=kw)
        return line
    # ---------------------------------------------------------------------- Inference (ONE save/load cycle)
    given = rng.random() < 0.4
    run = rng.random() < 0.5
    two_par = rng.random() < 0.4
    if two_par:
        coal = lambda N, t: pg.Coalescent(n=2, demography=pg.Demography(pop_sizes={'pop_0': {0: 1.0, t: N}}), parallelize=False, pbar=False)
        bounds = dict(N=(0.25, 8.0), t=(0.125, 2.0))
        x0 = dict(N=rng.choice([0.5, 1.5, 3.0]), t=rng.choice([0.25, 1.0]))
    else:
        coal = lambda N: pg.Coalescent(n=2, demography=pg.Demography(pop_sizes={'pop_0': N}), parallelize=False, pbar=False)
        bounds = dict(N=(0.25, 8.0))
        x0 = dict(N=rng.choice([0.5, 1.5, 3.0]))
    inf = pg.Inference(bounds=bounds, x0=x0 if given else None, coal=coal, loss=lambda c, o: float((c.tree_height.mean - o) ** 2),
                       observation=rng.choice([1.0, 2.5]), resample=(lambda o, g: o * g.uniform(0.9, 1.1)) if rng.random() < 0.5 else None,
                       n_runs=rng.randint(1, 2), parallelize=False, pbar=False, seed=rng.choice([None, rng.randrange(10 ** 6)]),
                       cache=rng.random() < 0.7, opts=dict(maxiter=2))
    looked = run or rng.random() < 0.6
    if run:
        with C.LogCapture():
            inf.run()
    elif looked:
        _ = inf.x0
    toks = _ser_inf_tokens(inf)
    rng_at_save = copy.deepcopy(inf._rng)
    y = _ser_roundtrip(pg.Inference, inf, route)
    ctx.count('serial-inference'); ctx.count(f'serial-inference:{"run" if run else "not-run"}:{"x0-given" if given else "x0-drawn" if looked else "x0-not-looked-at"}:{route}')
    if _ser_inf_tokens(inf) != toks:
        ctx.corr_break('serial-fields', why='original altered', before=toks, after=_ser_inf_tokens(inf))
    line = f"serial {sv} {gv} inf {' '.join(toks)}"
    ans = C.driver().ask(line)
    model_dict, model_x0 = ans.split(' | x0=')
    real = sorted(_ser_inf_tokens(y), key=lambda t: t.split('=')[0])
    if model_dict.split() != real:
        m = model_dict.split()
        diff = [(a, b) for a, b in zip(m, real) if a != b] if len(m) == len(real) else sorted(set(m) ^ set(real))
        ctx.corr_break('serial-fields', kind='inference', route=route, request=line, model=m, real=real, diff=diff, run=run, x0_given=given, looked=looked)
        return line
    x0_loaded = dict(y.x0)
    if model_x0.startswith('s:draw('):
        expected = {k: rng_at_save.uniform(*b) for k, b in bounds.items()}          # `_sample()` on the generator as it was saved
        ctx.count('serial-inference-model-predicts-a-fresh-draw')
    else:
        expected = {kv.split('~')[0]: float(Fraction(kv.split('~')[1])) for kv in model_x0[2:].split(',')}
    if x0_loaded != expected:
        ctx.corr_break('serial-fields', kind='inference', why='x0 of the loaded object', model=model_x0, expected=expected, loaded=x0_loaded,
                       run=run, x0_given=given, looked=looked)
    x0_orig = dict(inf.x0)
    if gv == 'i' and x0_loaded != x0_orig:
        ctx.corr_break('serial-fields', kind='inference', why='x0 before != x0 after', original=x0_orig, loaded=x0_loaded, run=run,
                       x0_given=given, looked=looked)
    return line


# ------------------------------------------------------------------------------------------ marginal assembly (C12 / C06)
_MARG_REL = 1e-6            # of the raw-moment scale (mean resp. second raw moment of the total statistic), as C01 / C12
_MARG_VL_MAX = 45           # Van Loan dimension (order 2: three blocks) of the model evaluation


def _marg_cfg(rng):
    """2-3 demes n <= 3 (one locus, any coalescent model), or two loci n <= 3 in one deme (Kingman); 1-2 epochs"""
    import gen
    from props import p2util as U
    two = rng.random() < 0.45
    for _ in range(200):
        cfg = gen.rand_cfg(rng, n_max=3, demes_max=1 if two else 3, epochs_max=2, loci=2 if two else 1)
        if two or len(cfg['n']) >= 2:
            break
    if two and rng.random() < 0.4:
        # independent or partially independent locus trees: no recombination, lineages start (partly) unlinked
        cfg['r'] = 0.0
        cfg['n_unl'] = rng.choice([1, sum(cfg['n'].values())])
    U.make_absorbing(cfg)
    if rng.random() < 0.4:
        cfg['end_time'] = float(2.0 ** rng.randint(-1, 4))
    return cfg


def _marg_parse(ans):
    """`total m v | means … | vars … | cov r ; r | corr r ; r | getcov r ; r | getcorr r ; r`  ->  dict of Fractions (corr / getcorr:
    floats or the exception name); `cov[i][j] = get_cov(j, i)`, `getcov[i][j] = get_cov(i, j)`"""
    out = {}
    for sec in ans.split(' | '):
        head, _, body = sec.partition(' ')
        if head in ('total', 'means', 'vars'):
            out[head] = [Fraction(t) for t in body.split()]
        elif head in ('cov', 'getcov'):
            out[head] = [[Fraction(t) for t in row.split()] for row in body.split(' ; ')]
        elif head == 'corr':
            out[head] = body if body.endswith('Error') else [[float(Fraction(t)) for t in row.split()] for row in body.split(' ; ')]
        elif head == 'getcorr':
            out[head] = [[t if t.endswith('Error') else float(Fraction(t)) for t in row.split()] for row in body.split(' ; ')]
    return out


def _marg_exc(f):
    try:
        return float(f())
    except Exception as e:          # noqa: the NAME of the exception is the observable
        return type(e).__name__


def marginals_probe(ctx, rng, variant='current'):
    """The ASSEMBLY of the per-deme / per-locus observables (Lean: PGModel/Marginals.lean, driver command `marginals`) against
    the real `MarginalDemeDistributions` / `MarginalLocusDistributions`: for tree height and total branch length of a small
    random configuration, `dist.demes[p].mean / .var`, `dist.demes.cov` (read in BOTH index orders), every `get_cov(a, b)` and
    `get_cov(b, a)`, every `get_corr(a, b)` and the `corr` matrix (where the variances are not tiny), the loci analogues, and
    the exceptions of `get_cov` / `get_corr` / `[...]` for a part that does not exist are compared with the model's answer
    (model moments: fixed-point exponential at the same end time; tolerance 1e-6 of the raw-moment scale).  Nothing is compared
    when PhaseGen logged a warning or the horizon is ill-scaled.  `variant` selects the model variant (seeded defects of
    PGModel/Marginals.lean; development only)."""
    pg = C.import_phasegen()
    import conv
    from props import p2util as U
    cfg = _marg_cfg(rng)
    drv = C.driver()
    while True:
        k_model = conv.setup_model(drv, cfg, 'lc')
        if 3 * k_model <= _MARG_VL_MAX:
            break
        big = max(cfg['n'], key=lambda p: cfg['n'][p])          # shrink the sample until the Van Loan matrix is small
        cfg['n'][big] -= 1
        if sum(cfg['n'].values()) < 2:
            ctx.count('marginals:too-large')
            return None
    two = cfg.get('loci', 1) == 2
    names = conv.cfg_names(cfg)
    coal = conv.make_coalescent(pg, cfg)
    real = {}
    with U.Guard() as g:
        T = float(coal.tree_height.t_max)
        pops = list(coal.lineage_config.pop_names)
        for nm, dist in (('th', coal.tree_height), ('tbl', coal.total_branch_length)):
            fams = [('demes', dist.demes, pops)] + ([('loci', dist.loci, [0, 1])] if two else [])
            w = dict(mean=float(dist.mean), var=float(dist.var), m2=float(dist.m2))
            for fam, M, keys in fams:
                q = dict(means=[float(M[p].mean) for p in keys], vars=[float(M[p].var) for p in keys],
                         cov=np.array(M.cov, dtype=float),
                         get_cov={(i, j): float(M.get_cov(a, b)) for i, a in enumerate(keys) for j, b in enumerate(keys)})
                ok = [v > 1e-6 * max(abs(w['m2']), 1e-300) for v in q['vars']]
                q['get_corr'] = {(i, j): float(M.get_corr(a, b)) for i, a in enumerate(keys) for j, b in enumerate(keys)
                                 if ok[i] and ok[j]}
                q['corr'] = np.array(M.corr, dtype=float) if all(ok) else None
                # a part that does not exist (index `len(keys)` on the model side)
                ghost = 'no_such_pop' if fam == 'demes' else len(keys)
                q['ghost'] = dict(getcov=_marg_exc(lambda: M.get_cov(keys[0], ghost)), getcorr=_marg_exc(lambda: M.get_corr(ghost, keys[0])),
                                  sub=_marg_exc(lambda: M[ghost].mean))
                w[fam] = q
            real[nm] = w
    if g.warned:
        ctx.count('marginals:warned'); ctx.skipped += 1
        return None
    info = dict(cfg=cfg, T=T, pops=pops)
    if g.error:
        ctx.corr_break('marginals', why='the real marginal layer raised although no warning was logged', error=g.error, trace=g.trace, **info)
        return info
    if U.ill_scaled(T, real['th']['mean']):
        ctx.count('marginals:ill-scaled-horizon'); ctx.skipped += 1
        return None
    if sorted(pops) != sorted(names):
        ctx.corr_break('marginals', why='deme axis', model_axis=names, real_axis=pops, **info)
        return info
    ctx.count('marginals-cases'); ctx.count(f'marginals:demes{len(pops)}'); ctx.count(f'marginals:loci{2 if two else 1}')
    ctx.count(f'marginals:n{sum(cfg["n"].values())}'); ctx.count(f'marginals:{cfg["model"][0]}')
    if two and cfg.get('r', 0) == 0 and cfg.get('n_unl', 0) > 0:
        ctx.count('marginals:unlinked-start-without-recombination')
    bad = []

    def cmp(what, model, obs, scale, **kw):
        tol = _MARG_REL * scale
        ctx.count('marginals-values-compared')
        if not (np.isfinite(obs) and abs(float(model) - obs) <= tol):
            bad.append(dict(what=what, model=float(model), real=float(obs), tolerance=tol, **kw))

    for nm in ('th', 'tbl'):
        w = real[nm]
        s1, s2 = max(abs(w['mean']), 1e-300), max(abs(w['m2']), 1e-300)
        for fam in ('demes', 'loci') if two else ('demes',):
            q = w[fam]
            ans = drv.ask(f'marginals {fam} {nm} {C.rs(T)} {variant}')
            m = _marg_parse(ans)
            # model index of the real key number i (demes are matched by NAME, loci by number)
            ix = [names.index(p) for p in pops] if fam == 'demes' else [0, 1]
            D = len(ix)
            cmp(f'{nm}.mean', m['total'][0], w['mean'], s1)
            cmp(f'{nm}.var', m['total'][1], w['var'], s2)
            for i in range(D):
                cmp(f'{nm}.{fam}[{i}].mean', m['means'][ix[i]], q['means'][i], s1)
                cmp(f'{nm}.{fam}[{i}].var', m['vars'][ix[i]], q['vars'][i], s2)
            if q['cov'].shape != (D, D):
                bad.append(dict(what=f'{nm}.{fam}.cov shape', real=list(q['cov'].shape), model=[D, D]))
                continue
            mv = [float(m['vars'][ix[i]]) for i in range(D)]
            cur = variant == 'current'
            if isinstance(m['corr'], str) != (q['corr'] is None) and cur:
                ctx.count('marginals:corr-matrix-defined-on-one-side-only')     # tiny variance on one side: not compared
            for i in range(D):
                for j in range(D):
                    # same layout on both sides: row = SECOND argument of get_cov
                    cmp(f'{nm}.{fam}.cov[{i}][{j}]', m['cov'][ix[i]][ix[j]], q['cov'][i, j], s2)
                    if cur:
                        cmp(f'{nm}.{fam}.cov[{j}][{i}] (transposed read)', m['cov'][ix[i]][ix[j]], q['cov'][j, i], s2)
                        cmp(f'{nm}.{fam}.get_cov({i},{j}) vs model cov[{j}][{i}]', m['cov'][ix[j]][ix[i]], q['get_cov'][(i, j)], s2)
                    cmp(f'{nm}.{fam}.get_cov({i},{j})', m['getcov'][ix[i]][ix[j]], q['get_cov'][(i, j)], s2)
                    if (i, j) in q['get_corr'] and mv[i] > 0 and mv[j] > 0:
                        tolc = _MARG_REL * max(1.0, s2 / math.sqrt(mv[i] * mv[j]))
                        mc = m['getcorr'][ix[i]][ix[j]]
                        if isinstance(mc, str):
                            bad.append(dict(what=f'{nm}.{fam}.get_corr({i},{j})', model=mc, real=q['get_corr'][(i, j)]))
                            continue
                        # the reference: model cov / sqrt(model var * model var) (current code), else the variant's own get_corr
                        ref = float(m['cov'][ix[j]][ix[i]]) / math.sqrt(mv[i] * mv[j]) if cur else mc
                        if cur and abs(mc - ref) > 1e-9 * max(1.0, abs(ref)):
                            bad.append(dict(what=f'{nm}.{fam}: model get_corr({i},{j}) vs model cov/sqrt(var var)', model=mc, ref=ref))
                        ctx.count('marginals-corr-compared')
                        obs = [(f'get_corr({i},{j})', q['get_corr'][(i, j)], ref)]
                        if q['corr'] is not None and not isinstance(m['corr'], str):
                            obs.append((f'corr[{j}][{i}]', float(q['corr'][j, i]), ref if cur else m['corr'][ix[j]][ix[i]]))
                        for what, o, rf in obs:
                            if not (np.isfinite(o) and abs(o - rf) <= tolc):
                                bad.append(dict(what=f'{nm}.{fam}.{what}', model=rf, real=o, tolerance=tolc))
            # exceptions for a part that does not exist
            toks = drv.ask(f'marginals {fam} {nm} {C.rs(T)} {variant} 0 {D}').split()
            toks2 = drv.ask(f'marginals {fam} {nm} {C.rs(T)} {variant} {D} 0').split()
            model_ghost = {k_: (v if v.endswith('Error') else 'value') for k_, v in dict(getcov=toks[1], getcorr=toks2[3], sub=toks2[5]).items()}
            ctx.count('marginals-exceptions-compared', 3)
            if model_ghost != {k_: (v if isinstance(v, str) else 'value') for k_, v in q['ghost'].items()}:
                bad.append(dict(what=f'{nm}.{fam}: exceptions for a missing part', model=model_ghost, real=q['ghost']))
    if bad:
        ctx.corr_break('marginals', mismatches=bad[:8], n_mismatches=len(bad), **info)
    return info


# ------------------------------------------------------------------------------------------ the mutable Demography object (C05)
def _demoobj_event(pg, rng, names):
    """a REAL event object over (a subset of) `names`; times from a small grid so that equal start times are frequent"""
    t = lambda: rng.choice([0, 0, 0.25, 0.5, 0.5, 1.0, 2.0])
    kinds = ['size', 'sizes', 'sizes']
    if len(names) >= 2:
        kinds += ['mig', 'mig1', 'sym', 'split']
    kind = rng.choice(kinds)
    if kind == 'size':
        return pg.PopSizeChange(pop=rng.choice(names), time=t(), size=rng.choice([0.5, 1.0, 2.0]))
    if kind == 'sizes':
        pops = rng.sample(names, rng.randint(1, len(names)))
        return pg.PopSizeChanges({p: {t(): rng.choice([0.5, 2.0]) for _ in range(rng.randint(1, 2))} for p in pops})
    if kind == 'mig':
        pairs = [(p, q) for p in names for q in names if p != q]
        return pg.MigrationRateChanges({pq: {t(): rng.choice([0.0, 0.5, 1.0])} for pq in rng.sample(pairs, rng.randint(1, min(3, len(pairs))))})
    if kind == 'mig1':
        p, q = rng.sample(names, 2)
        return pg.MigrationRateChange(source=p, dest=q, time=t(), rate=rng.choice([0.25, 1.0]))
    if kind == 'sym':
        pops = rng.sample(names, rng.randint(2, len(names)))
        return pg.SymmetricMigrationRateChanges(pops=pops, rate=rng.choice([0.5, {t(): 0.25}, {0.5: 1.0, 0.25: 0.5}]))
    anc = rng.choice(names)
    derived = rng.sample([p for p in names if p != anc], rng.randint(1, len(names) - 1))
    return pg.PopulationSplit(time=t(), derived=derived if rng.random() < 0.6 else derived[0], ancestral=anc)


def demoobj_history(ctx, rng, n_ops, variant='current'):
    """The MUTABLE `Demography` object and its hand-over to `Coalescent` (Lean: PGModel/DemoObj.lean, driver `demoobj`):
    a random history of constructor / `add_events` / `add_event` / evaluating the epochs / reading `pop_names`, `n_pops` and
    the order of `events` / building a `Coalescent` on the object is executed on a REAL `Demography` and replayed by the model;
    every observation is diffed.  Independently of the model: `pop_names` must at every read be the sorted set of the names of
    the events added so far, and `Coalescent.__init__` must not add a `PopSizeChanges` for a name some event already mentions."""
    pg = C.import_phasegen()
    pool = ['a', 'b', 'pop_0', 'zeta', 'B']
    names = rng.sample(pool, rng.randint(2, 3))
    keep, ids, counter = [], {}, [0]          # `keep` holds every event object alive: `id()` stays unique

    def reg(e):
        keep.append(e)
        ids[id(e)] = counter[0]
        counter[0] += 1
        return e

    def tok(e):
        return f"{ids[id(e)]}@{C.rs(e.start_time)}@{','.join(e.pop_names) or '-'}"

    def toks(evs):
        return ';'.join(tok(e) for e in evs) or '-'

    def fresh_events(k):
        return [reg(_demoobj_event(pg, rng, names)) for _ in range(k)]

    d, ops, real, specified, history_names = None, [], [], set(), []
    starts = []
    with C.LogCapture():
        for j in range(n_ops):
            o = 'new' if d is None else rng.choice(['new'] + ['adds', 'add', 'add', 'touch', 'names', 'names', 'order', 'coal', 'coal'] * 3)
            if o == 'new':
                evs = fresh_events(rng.choice([0, 0, 1, 2, 3]))
                kw = {}
                if rng.random() < 0.4:
                    sh = rng.choice(['flat', 'full', 'scalar'])
                    ps = rng.sample(names, rng.randint(1, len(names)))
                    kw['pop_sizes'] = (2.0 if sh == 'scalar' else {p: 2.0 for p in ps} if sh == 'flat' else
                                       {p: {rng.choice([0, 0.25, 0.5]): 2.0, 1.0: 0.5} for p in ps})
                if rng.random() < 0.3:
                    p, q = rng.sample(names, 2)
                    kw['migration_rates'] = rng.choice([{(p, q): 0.5}, {(p, q): {0.5: 1.0}, (q, p): {0.25: 0.5}}])
                d = pg.Demography(events=list(evs), **kw)
                extra = [e for e in d.events if id(e) not in ids]
                assert len(extra) == (1 if kw else 0), (kw, extra)
                for e in extra:
                    reg(e)
                ops.append(f"new:{toks(evs)}" + (f":{tok(extra[0])}" if extra else ''))
                real.append('.')
                specified = {p for e in evs + extra for p in e.pop_names}
                starts = [float(e.start_time) for e in evs + extra]
                if kw:
                    ctx.count('demoobj:ctor-dicts')
            elif o == 'adds':
                evs = fresh_events(rng.choice([0, 1, 2, 2, 3]))
                d.add_events(list(evs))
                ops.append(f"adds:{toks(evs)}"); real.append('.')
                specified |= {p for e in evs for p in e.pop_names}
                starts += [float(e.start_time) for e in evs]
            elif o == 'add':
                e = fresh_events(1)[0]
                d.add_event(e)
                ops.append(f"add:{tok(e)}"); real.append('.')
                specified |= set(e.pop_names)
                starts.append(float(e.start_time))
            elif o == 'touch':
                how = rng.choice(['next', 'get_epoch', 'get_epochs'])
                if how == 'next':
                    next(d.epochs)
                elif how == 'get_epoch':
                    d.get_epoch(0.3)
                else:
                    d.get_epochs([1.5, 0.1])
                ops.append('touch'); real.append('.')
            elif o == 'names':
                pn, npops = list(d.pop_names), d.n_pops
                ops.append('names'); real.append(f"{','.join(pn) or '-'};n={npops}")
                ctx.count('demoobj:reads-of-pop_names')
                if pn != sorted(specified) or npops != len(specified):
                    ctx.violation('demography-object:stale-pop-names', history=list(ops), observed=dict(pop_names=pn, n_pops=npops),
                                  specified=sorted(specified))
            elif o == 'order':
                ops.append('order'); real.append(','.join(str(ids[id(e)]) for e in d.events) or '-')
                if len(set(starts)) < len(starts):
                    ctx.count('demoobj:order-read-with-equal-start-times')
            else:
                cand = rng.sample(pool, rng.randint(1, 2)) if rng.random() < 0.5 else rng.sample(names, rng.randint(1, len(names)))
                n = {p: rng.choice([0, 1, 2, 2, 3]) for p in cand}
                before, pn_before = list(d.events), list(d.pop_names)
                coal = pg.Coalescent(n=dict(n), demography=d, parallelize=False, pbar=False)
                new_id = counter[0]
                extra = [e for e in d.events if id(e) not in ids]
                assert len(extra) <= 1 and len(d.events) == len(before) + len(extra), (len(before), len(d.events))
                for e in extra:
                    reg(e)
                lin = {str(k): int(v) for k, v in coal.lineage_config.lineage_dict.items()}
                ops.append(f"coal:{new_id}:{','.join(f'{p}={c}' for p, c in n.items())}")
                real.append(f"added={','.join(extra[0].pop_names) if extra else '-'};lin={','.join(f'{p}={c}' for p, c in sorted(lin.items()))}")
                ctx.count('demoobj:coalescents'); ctx.count('demoobj:coalescent-adds-event' if extra else 'demoobj:coalescent-adds-nothing')
                if list(lin)[:len(n)] != list(n):
                    ctx.violation('demography-object:sample-order-changed', history=list(ops), sample=n, lineage_dict=lin)
                if extra:
                    if type(extra[0]).__name__ != 'PopSizeChanges' or float(extra[0].start_time) != 0.0:
                        ctx.corr_break('demoobj-history', why='completion event is not PopSizeChanges at 0', request=' '.join(ops),
                                       real=f'{type(extra[0]).__name__}@{extra[0].start_time}')
                    over = sorted(set(extra[0].pop_names) & specified)
                    if over:
                        ctx.violation('demography-object:completion-overrides', history=list(ops), added=list(extra[0].pop_names),
                                      observed=dict(pop_names_read_by_the_constructor=pn_before), specified=sorted(specified),
                                      overridden=over)
                    specified |= set(extra[0].pop_names)
                    starts.append(0.0)
    line = f"demoobj {variant} {' '.join(ops)}"
    ans = C.driver().ask(line)
    model = [f.strip() for f in ans.split('|')]
    ctx.count('demoobj-histories'); ctx.count('demoobj-ops', len(ops))
    bad = []
    if len(model) != len(real):
        bad.append(dict(why='number of fields', model=len(model), real=len(real)))
    else:
        bad = [dict(op_index=i, op=ops[i], model=m, real=r) for i, (m, r) in enumerate(zip(model, real)) if m != r]
    if bad:
        ctx.corr_break('demoobj-history', variant=variant, request=line, model=ans, real=' | '.join(real), mismatches=bad[:6])
    return line


# ------------------------------------------------------------------------------------------ epoch keys (C17 / C04)
def _ek_tokens(sizes_items, mig_items, ids):
    """`s:<pop>=<rat>,… m:<src>><dst>=<rat>,…`: the items of the two dicts IN DICT ORDER, names -> ids"""
    s = ','.join(f"{ids[p]}={C.rs(v)}" for p, v in sizes_items) or '-'
    m = ','.join(f"{ids[a]}>{ids[b]}={C.rs(v)}" for (a, b), v in mig_items) or '-'
    return f"s:{s} m:{m}"


def _ek_shuffled(rng, d):
    items = list(d.items())
    rng.shuffle(items)
    return dict(items)


def _ek_spec(rng, names):
    """change dictionaries over `names` from small grids: contents repeat between (also non-consecutive) epochs"""
    times = [0, 0.25, 0.5, 1.0, 2.0, 3.0]
    sizes, mig = {}, {}
    for p in names:
        if rng.random() < 0.85:
            ts = sorted(rng.sample(times, rng.randint(1, 4)))
            if rng.random() < 0.7:
                ts[0] = 0
            sizes[p] = {t: rng.choice([0.5, 1, 1.0, 2.0, 3]) for t in ts}
    pairs = [(p, q) for p in names for q in names if p != q]
    for pq in rng.sample(pairs, rng.randint(0, len(pairs))):
        ts = sorted(rng.sample(times, rng.randint(1, 3)))
        mig[pq] = {t: rng.choice([0, 0.0, 0.5, 1.0, 0.25]) for t in ts}
    if not sizes and not mig:
        sizes[names[0]] = {0: 2.0}
    return sizes, mig


def _ek_demography(pg, rng, names, spec, shuffle):
    """a REAL Demography for the change dictionaries `spec`; `shuffle` writes the same content in other dict orders and
    splits it over event objects in another way"""
    sizes, mig = spec
    if shuffle:
        sizes = {p: _ek_shuffled(rng, ch) for p, ch in _ek_shuffled(rng, sizes).items()}
        mig = {k: _ek_shuffled(rng, ch) for k, ch in _ek_shuffled(rng, mig).items()}
    how = rng.choice(['kw', 'events', 'mixed'])
    with C.LogCapture():
        if how == 'kw' or (not sizes or not mig):
            return pg.Demography(pop_sizes=sizes or None, migration_rates=mig or None)
        evs = [pg.MigrationRateChanges(mig), pg.PopSizeChanges(sizes)]
        if how == 'mixed':
            return pg.Demography(events=[evs[0]], pop_sizes=sizes)
        if rng.random() < 0.5:
            evs.reverse()
        return pg.Demography(events=evs)


def epochkey_pairs(ctx, rng, variant='current', n_pairs=30):
    """`Epoch.__eq__` / `Epoch.__hash__` of REAL epoch objects against the Lean model of the key (PGModel/EpochKey.lean, driver
    `epochkey`): epochs of real `pg.Demography` objects (consecutive and non-consecutive of one generator run; of two demographies,
    one of them possibly the same content written in other dict orders) and directly constructed `Epoch` objects (content of a
    generated epoch in shuffled order, with / without the self pairs, with missing pairs left to the constructor's zero fill).
    For every pair `e1 == e2` and `hash(e1) == hash(e2)` of the real objects are compared with the model's answer on
    `list(e.pop_sizes.items())`, `list(e.migration_rates.items())` (for the directly constructed ones: on the constructor ARGUMENTS,
    the model applies the zero fill).  Independently of the model: two epochs that compare equal must have the same population
    sizes and the same migration rates between distinct populations (`epoch-eq:unsound`), and every generated epoch must list
    its keys in the order `pop_names` / `product(pop_names, repeat=2)` (theorem `generated_key_order`)."""
    pg = C.import_phasegen()
    import itertools
    from phasegen.demography import Epoch
    pool = ['a', 'b', 'pop_0', 'zeta', 'B']
    names = rng.sample(pool, rng.randint(2, 3))
    spec = _ek_spec(rng, names)
    d1 = _ek_demography(pg, rng, names, spec, shuffle=False)
    mode2 = rng.choice(['same-shuffled', 'same-shuffled', 'other', 'other-names', 'events'])
    if mode2 == 'same-shuffled':
        d2 = _ek_demography(pg, rng, names, spec, shuffle=True)
    elif mode2 == 'other':
        d2 = _ek_demography(pg, rng, names, _ek_spec(rng, names), shuffle=rng.random() < 0.5)
    elif mode2 == 'other-names':
        names2 = rng.sample(pool, rng.randint(2, 3))
        d2 = _ek_demography(pg, rng, names2, _ek_spec(rng, names2), shuffle=False)
    else:
        with C.LogCapture():
            d2 = pg.Demography(events=[_demoobj_event(pg, rng, names) for _ in range(rng.randint(1, 4))])
    ctx.count(f'epochkey:second-demography:{mode2}')
    with C.LogCapture():
        gen = [list(itertools.islice(d.epochs, 7)) for d in (d1, d2)]
    # generated epochs: (object, size items the model is given, migration items the model is given, origin)
    objs = []
    for k, (d, eps) in enumerate(zip((d1, d2), gen)):
        for j, e in enumerate(eps):
            objs.append((e, list(e.pop_sizes.items()), list(e.migration_rates.items()), ('gen', k, j)))
            if list(e.pop_sizes) != list(d.pop_names) or list(e.migration_rates) != list(itertools.product(d.pop_names, repeat=2)):
                ctx.corr_break('epochkey', why='a generated epoch does not list its keys in the order pop_names / product(pop_names, 2)',
                               pop_names=list(d.pop_names), sizes=list(e.pop_sizes), mig=[list(k_) for k_ in e.migration_rates])
            ctx.count('epochkey:generated-epochs')
    if mode2 == 'same-shuffled':
        ctx.count('epochkey:same-content-other-dict-order:epoch-lists-equal' if
                  [(list(e.pop_sizes.items()), list(e.migration_rates.items())) for e in gen[0]] ==
                  [(list(e.pop_sizes.items()), list(e.migration_rates.items())) for e in gen[1]]
                  else 'epochkey:same-content-other-dict-order:epoch-lists-DIFFER')
    # directly constructed epochs
    direct = []
    for _ in range(rng.randint(2, 4)):
        src = rng.choice(objs)[0]
        ps = dict(src.pop_sizes)
        mr = dict(src.migration_rates)
        kind = rng.choice(['copy', 'shuffle', 'no-self', 'missing', 'shuffle-missing', 'perturb'])
        if kind in ('shuffle', 'shuffle-missing'):
            ps, mr = _ek_shuffled(rng, ps), _ek_shuffled(rng, mr)
        if kind in ('no-self', 'missing', 'shuffle-missing'):
            mr = {k: v for k, v in mr.items() if k[0] != k[1]}
        if kind in ('missing', 'shuffle-missing'):
            mr = {k: v for k, v in mr.items() if not (v == 0 and rng.random() < 0.6)}
        if kind == 'perturb':
            # change ONE directed rate or one size (either direction of a pair: `(q, p)` with `p < q` as often as `(p, q)`)
            offdiag = [k for k in mr if k[0] != k[1]]
            if offdiag and rng.random() < 0.75:
                k = rng.choice(offdiag)
                mr[k] = mr[k] + rng.choice([0.5, 1.0, 2.0 ** -30])
            else:
                p = rng.choice(list(ps))
                ps[p] = ps[p] + rng.choice([1, 0.5, 2.0 ** -30])
        e = Epoch(start_time=rng.choice([0, 1.5]), end_time=rng.choice([2.0, np.inf]), pop_sizes=ps, migration_rates=mr)
        direct.append((e, list(ps.items()), list(mr.items()), ('direct', kind)))
        ctx.count(f'epochkey:direct:{kind}')
    pairs = []
    for k in (0, 1):
        n = len(gen[k])
        base = sum(len(g) for g in gen[:k])
        pairs += [(objs[base + i], objs[base + i + 1]) for i in range(n - 1)]                                   # consecutive
        pairs += [(objs[base + i], objs[base + j]) for i in range(n) for j in range(n) if abs(i - j) >= 2]       # non-consecutive
    n0 = len(gen[0])
    cross = [(a, b) for a in objs[:n0] for b in objs[n0:]]
    rng.shuffle(cross)
    pairs += cross[:10]
    pairs += [(rng.choice(objs), x) for x in direct] + [(x, rng.choice(objs)) for x in direct]
    pairs += [(x, y) for x in direct for y in direct]
    rng.shuffle(pairs)
    pairs = pairs[:n_pairs]
    last = None
    for (e1, s1, m1, o1), (e2, s2, m2, o2) in pairs:
        allnames = sorted({p for p, _ in s1 + s2} | {x for (a, b), _ in m1 + m2 for x in (a, b)})
        ids = {p: i for i, p in enumerate(allnames)}
        line = f"epochkey {variant} {_ek_tokens(s1, m1, ids)} ; {_ek_tokens(s2, m2, ids)}"
        model = C.driver().ask(line)
        real_eq, real_hash = bool(e1 == e2), hash(e1) == hash(e2)
        last = line
        ctx.count('epochkey:pairs')
        tag = 'same-run' if o1[0] == o2[0] == 'gen' and o1[1] == o2[1] else 'two-demographies' if o1[0] == o2[0] == 'gen' else 'with-direct'
        ctx.count(f"epochkey:{tag}:{'eq' if real_eq else 'ne'}")
        if tag == 'same-run' and abs(o1[2] - o2[2]) >= 2 and real_eq:
            ctx.count('epochkey:same-run:non-consecutive-hit')
        if model not in ('eq', 'ne') or (model == 'eq') != real_eq or real_hash != real_eq:
            ctx.corr_break('epochkey', variant=variant, request=line, model=model, real_eq=real_eq, real_hash_eq=real_hash,
                           origin=[list(o1), list(o2)])
        # the property itself, on the real objects: equal epochs carry the same sizes and the same rates
        same_sizes = dict(e1.pop_sizes) == dict(e2.pop_sizes)
        off1 = {k: v for k, v in e1.migration_rates.items() if k[0] != k[1]}
        off2 = {k: v for k, v in e2.migration_rates.items() if k[0] != k[1]}
        if real_eq and not (same_sizes and off1 == off2):
            diff = sorted(str(k) for k in set(off1) | set(off2) if off1.get(k) != off2.get(k))
            ctx.violation('epoch-eq:unsound', pop_sizes=[dict(e1.pop_sizes), dict(e2.pop_sizes)],
                          migration_rates=[{str(k): v for k, v in e1.migration_rates.items()},
                                           {str(k): v for k, v in e2.migration_rates.items()}],
                          differing_rates=diff, origin=[list(o1), list(o2)])
        # within generator runs over the same names, equal content must be a hit (theorem `generated_eq_iff`)
        if o1[0] == o2[0] == 'gen' and list(e1.pop_sizes) == list(e2.pop_sizes) and not real_eq and \
                dict(e1.pop_sizes) == dict(e2.pop_sizes) and dict(e1.migration_rates) == dict(e2.migration_rates):
            ctx.corr_break('epochkey', why='generated epochs over the same names with equal content compare unequal', request=line,
                           origin=[list(o1), list(o2)])
    return last



# ------------------------------------------------------------------------------------------ parallelize (C17)
def _pz_unit(x):
    """the unit of work of `parallel_probe` (module level: the pool pickles it by reference).  The sleep makes the units
    finish OUT of data order (0.00 - 0.04 s, not monotone in x)."""
    import time
    time.sleep(((x * 7919) % 5) * 0.01)
    return x


def parallel_probe(ctx, rng, variant='current'):
    """the REAL `phasegen.utils.parallelize` on a shuffled `data = 0 … k-1` with random `parallelize` / `pbar` flags against the
    Lean model of the helper (PGModel/Parallel.lean, driver `parallel`, unit function `id`: the answer is the ORDER in which the
    results come back).  The model is asked for the identity schedule and for a random one (theorem
    `parallelize_schedule_irrelevant`: every schedule gives the data order; which schedule the operating system chose is not
    observable).  Independently of the model the result must equal `data` (`parallelize:order`).
    Must run in the MAIN process: a pool cannot be created inside a daemonic pool worker."""
    import io, contextlib, gc
    from phasegen.utils import parallelize
    k = rng.randint(2, 8)
    data = list(range(k))
    rng.shuffle(data)
    if rng.random() < 0.15:
        data = data[:1]                     # a single unit is never handed to a pool
    par, pbar = rng.random() < 0.75, rng.random() < 0.5
    err = io.StringIO()
    with contextlib.redirect_stderr(err):   # tqdm writes the bar to stderr
        res = parallelize(_pz_unit, data, parallelize=par, pbar=pbar, desc='probe')
    gc.collect()                            # the helper leaves its Pool to the garbage collector
    got = [int(round(float(x))) for x in np.asarray(res).ravel()]
    ctx.count('parallel-calls'); ctx.count(f'parallel:par={int(par)}:pbar={int(pbar)}:{"one" if len(data) == 1 else "many"}')
    if pbar and not err.getvalue():
        ctx.count('parallel:pbar-silent')
    tok = lambda xs: ','.join(str(x) for x in xs) if xs else '-'
    ident = list(range(len(data)))
    sched = list(ident)
    rng.shuffle(sched)
    lines = [f'parallel {variant} {int(par)} {int(pbar)} {tok(data)} {tok(sc)}' for sc in (ident, sched)]
    models = [C.driver().ask(line) for line in lines]
    if got != data:
        ctx.violation('parallelize:order', mode='parallelize', data=data, parallelize=par, pbar=pbar, expected=data, observed=got,
                      oracle='list(map(func, data)): the results of utils.parallelize come back in the order of the data')
    for line, model in zip(lines, models):
        if model != tok(got):
            ctx.corr_break('parallel', request=line, model=model, real=tok(got), data=data, parallelize=par, pbar=pbar)
    return lines[1]


def run_parallel_probe(ctx, n=12):
    """in-process loop (see `parallel_probe`); called at the end of props/c17.py `run`"""
    rng = random.Random(f'{ctx.seed}-corr-parallel')
    variant = os.environ.get('VERIF_PARALLEL_VARIANT', 'current')
    line = None
    for i in range(n):
        line = parallel_probe(ctx, rng, variant=variant)
        ctx.case(dict(kind='parallelize', nth=i, request=line), f'parallelize-{i}-{line}')


# ------------------------------------------------------------------------------------------ pmap entry points
def one_memo(ctx, i):
    rng = random.Random(f'{ctx.seed}-corr-memo-{i}')
    line = None
    for j in range(6):
        line = memo_history(ctx, rng, n_queries=rng.randint(3, 9), origin=dict(seed=f'{ctx.seed}-corr-memo-{i}', nth=j))
    ctx.case(dict(kind='memo-history', batch=i, last=line), f'memo-{i}')


def replay_memo(ctx, origin):
    """the history is a deterministic function of (seed string, index within the batch): regenerate and re-run it"""
    rng = random.Random(origin['seed'])
    for j in range(int(origin['nth']) + 1):
        memo_history(ctx, rng, n_queries=rng.randint(3, 9), origin=dict(origin, nth=j))


def one_cache(ctx, i):
    rng = random.Random(f'{ctx.seed}-corr-cache-{i}')
    for _ in range(10):
        ops = cache_history(ctx, rng, n_ops=rng.randint(4, 16))
    ctx.case(dict(kind='cache-history', ops=ops), f'cache-{i}')


def one_infer(ctx, i):
    rng = random.Random(f'{ctx.seed}-corr-infer-{i}')
    for _ in range(10):
        infer_history(ctx, rng, n_ops=rng.randint(2, 9))
    for _ in range(10):
        infer_labels(ctx, rng)
    ctx.case(dict(kind='infer-histories', batch=i), f'infer-{i}')


def one_validate(ctx, i):
    rng = random.Random(f'{ctx.seed}-corr-validate-{i}')
    for _ in range(40):
        validate_request(ctx, rng)
    ctx.case(dict(kind='validate-requests', batch=i), f'validate-{i}')


def one_api(ctx, i):
    rng = random.Random(f'{ctx.seed}-corr-api-{i}')
    for _ in range(60):
        line = api_calls(ctx, rng)
    ctx.case(dict(kind='api-calls', batch=i, last=line), f'api-{i}')


def one_config(ctx, i):
    rng = random.Random(f'{ctx.seed}-corr-config-{i}')
    info = None
    for _ in range(12):
        info = config_glue(ctx, rng) or info
    ctx.case(dict(kind='config-glue', batch=i, last=info), f'config-{i}')


def one_cfg_epochs(ctx, i):
    rng = random.Random(f'{ctx.seed}-corr-cfgepochs-{i}')
    info = None
    for _ in range(40):
        info = cfg_epochs(ctx, rng) or info
    ctx.case(dict(kind='cfg-epochs', batch=i, last=info), f'cfgepochs-{i}')


def one_share(ctx, i):
    rng = random.Random(f'{ctx.seed}-corr-share-{i}')
    ops = None
    for _ in range(8):
        ops = share_history(ctx, rng, n_ops=rng.randint(4, 18), variant=os.environ.get('VERIF_SHARE_VARIANT', 'c'))
    ctx.case(dict(kind='share-history', batch=i, last=ops), f'share-{i}')


def one_serial(ctx, i):
    rng = random.Random(f'{ctx.seed}-corr-serial-{i}')
    line = None
    for _ in range(8):
        line = serial_fields(ctx, rng, sv=os.environ.get('VERIF_SERIAL_SET', 'c'), gv=os.environ.get('VERIF_SERIAL_GET', 'i'))
    ctx.case(dict(kind='serial-fields', batch=i, last=line), f'serial-{i}')


def one_marginals(ctx, i):
    rng = random.Random(f'{ctx.seed}-corr-marginals-{i}')
    info = None
    for _ in range(3):
        info = marginals_probe(ctx, rng, variant=os.environ.get('VERIF_MARG_VARIANT', 'current')) or info
    ctx.case(dict(kind='marginals', batch=i, last=info), f'marginals-{i}')


def one_demoobj(ctx, i):
    rng = random.Random(f'{ctx.seed}-corr-demoobj-{i}')
    line = None
    for _ in range(20):
        line = demoobj_history(ctx, rng, n_ops=rng.randint(3, 10), variant=os.environ.get('VERIF_DEMOOBJ_VARIANT', 'current'))
    ctx.case(dict(kind='demoobj-history', batch=i, last=line), f'demoobj-{i}')


def one_epochkey(ctx, i):
    rng = random.Random(f'{ctx.seed}-corr-epochkey-{i}')
    line = None
    for _ in range(4):
        line = epochkey_pairs(ctx, rng, variant=os.environ.get('VERIF_EPOCHKEY_VARIANT', 'current'), n_pairs=30) or line
    ctx.case(dict(kind='epochkey-pairs', batch=i, last=line), f'epochkey-{i}')
