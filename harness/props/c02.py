"""
C02 — site-frequency-spectrum moments equal those of the labelled coalescent; bins sit at their index.

Correspondence (L-full): real sfs / fsfs mean, var, cov, corr against the Lean model: block-counting state space,
SFS rewards, `accumulateModel`, `padSFS`, `covSFS` evaluated with the fixed-point exponential.
"""
import random, math
import numpy as np
from fractions import Fraction
import pgcommon as C
import conv, gen

META = dict(
    level='proof',
    rule='random single-locus configurations on the block-counting space (n<=5 one deme / n<=4 two demes quick; larger '
         'thorough), all models, 1-2 epochs, optional end time; statistics: unfolded and folded mean, var, full cov and '
         'corr incl. the padded bins 0 and n; non-trivial = n >= 3 and >= 4 block-counting states',
    trusted_base=['PT1/PT3 (Van Loan moment formula, CTMC description of the coalescent) textbook, modelled',
                  'fixExp ~ exp (driver selftest)', 'scipy.linalg.expm / IEEE doubles'],
    assumptions=['1e-7 relative for means, 1e-6 of the raw second-moment scale for var/cov; non-stiff regime only'],
)


def model_vec(drv, kind, k, center, T):
    return [Fraction(x) for x in drv.ask(f'sfsmoment {kind} {k} {1 if center else 0} {C.rs(T)}').split()]


def model_cov(drv, kind, T):
    return [[Fraction(x) for x in row.split()] for row in drv.ask(f'sfscov {kind} {C.rs(T)}').split(' ; ')]


def compare(ctx, cfg, pg, dim_max):
    coal = conv.make_coalescent(pg, cfg)
    n = sum(cfg['n'].values())
    with C.LogCapture() as lc:
        T = coal.tree_height.t_max
        real = {}
        try:
            for kind, dist in (('u', coal.sfs), ('f', coal.fsfs)):
                real[kind] = dict(mean=np.array(dist.mean.data, dtype=float), var=np.array(dist.var.data, dtype=float),
                                  cov=np.array(dist.cov.data, dtype=float), corr=np.array(dist.corr.data, dtype=float),
                                  m2=np.array(dist.m2.data, dtype=float))
                # every combination of the two flags of SFSDistribution.moment at order 2 (per bin the two rewards are equal, so
                # `permute` must not matter; `center` selects variance vs raw second moment)
                real[kind]['flags'] = {(c, p): np.array(dist.moment(2, center=c, permute=p).data, dtype=float)
                                       for c in (True, False) for p in (True, False)}
        except Exception as e:
            ctx.violation('exception:sfs', cfg=cfg, error=f'{type(e).__name__}: {e}')
            return
    if lc.records:
        ctx.count('warned'); ctx.skipped += 1
        return
    drv = C.driver()
    k_states = conv.setup_model(drv, cfg, 'bc')
    if 3 * k_states > dim_max:
        ctx.skipped += 1; ctx.count('too-large')
        return
    Tq = C.frac(T)
    ctx.count(cfg['model'][0]); ctx.count(f'n{n}'); ctx.count(f'demes{len(cfg["n"])}'); ctx.count(f'epochs{len(cfg["epochs"])}')
    for kind in ('u', 'f'):
        mean = [float(x) for x in model_vec(drv, kind, 1, False, Tq)]
        m2 = [float(x) for x in model_vec(drv, kind, 2, False, Tq)]
        var = [float(x) for x in model_vec(drv, kind, 2, True, Tq)]
        cov = [[float(x) for x in row] for row in model_cov(drv, kind, Tq)]
        r = real[kind]
        ctx.case(dict(cfg=cfg, kind=kind, T=float(T), model_mean=mean, real_mean=r['mean'].tolist()),
                 (gen.cfg_key(cfg), kind) if n >= 3 and k_states >= 4 else None)
        if len(r['mean']) != n + 1 or r['cov'].shape != (n + 1, n + 1):
            ctx.violation(f'shape:{kind}', cfg=cfg, kind=kind, observed=[len(r['mean']), list(r['cov'].shape)], expected=n + 1)
            continue
        for i in range(n + 1):
            if not (abs(r['mean'][i] - mean[i]) <= 1e-7 * abs(mean[i]) + 1e-300):
                ctx.violation(f'mean:{kind}', cfg=cfg, kind=kind, bin=i, expected=mean[i], observed=float(r['mean'][i]), end_time=float(T))
                break
            if not (abs(r['var'][i] - var[i]) <= 1e-6 * abs(m2[i]) + 1e-300):
                ctx.violation(f'var:{kind}', cfg=cfg, kind=kind, bin=i, expected=var[i], observed=float(r['var'][i]), scale=m2[i])
                break
        for name, got, want in [('m2', r['m2'], m2)] + [(f'moment(2,center={c},permute={p})', v, var if c else m2)
                                                         for (c, p), v in r['flags'].items()]:
            for i in range(n + 1):
                if len(got) != n + 1 or not (abs(got[i] - want[i]) <= 1e-6 * abs(m2[i]) + 1e-300):
                    ctx.violation(f'second-moment-route:{kind}', cfg=cfg, kind=kind, route=name, bin=i, expected=want[i],
                                  observed=float(got[i]) if len(got) == n + 1 else None, scale=m2[i])
                    break
        sd = [math.sqrt(max(v, 0.0)) for v in var]
        bad = False
        # the element-wise routes get_cov / get_corr must give the same matrix entries
        dist = coal.sfs if kind == 'u' else coal.fsfs
        idx = list(range(1, n)) if kind == 'u' else list(range(1, n // 2 + 1))
        pairs = [(i, j) for i in idx for j in idx]
        random.Random(len(pairs)).shuffle(pairs)
        for (i, j) in pairs[:6] + [(0, 1), (n, 1)]:
            with C.LogCapture():
                gc = float(dist.get_cov(i, j))
            scale = abs(cov[i][j] + mean[i] * mean[j]) + abs(mean[i] * mean[j])
            if not (abs(gc - cov[i][j]) <= 1e-6 * scale + 1e-300):
                ctx.violation(f'get_cov:{kind}', cfg=cfg, kind=kind, i=i, j=j, expected=cov[i][j], observed=gc, scale=scale)
                bad = True; break
            if 0 < i < n and 0 < j < n:
                # the documented route through the Coalescent with explicit SFS rewards
                RW = pg.UnfoldedSFSReward if kind == 'u' else pg.FoldedSFSReward
                with C.LogCapture():
                    cm = float(coal.moment(2, (RW(i), RW(j))))
                    c1 = float(coal.moment(1, (RW(i),)))
                if not (abs(cm - cov[i][j]) <= 1e-6 * scale + 1e-300) or not (abs(c1 - mean[i]) <= 1e-7 * abs(mean[i]) + 1e-300):
                    ctx.violation(f'coalescent-moment-route:{kind}', cfg=cfg, kind=kind, i=i, j=j, expected_cov=cov[i][j], observed_cov=cm,
                                  expected_mean=mean[i], observed_mean=c1, scale=scale,
                                  route='Coalescent.moment(2, (SFSReward(i), SFSReward(j))) / moment(1, (SFSReward(i),))')
                    bad = True; break
            if sd[i] > 1e-9 and sd[j] > 1e-9:
                with C.LogCapture():
                    gr = float(dist.get_corr(i, j))
                if not abs(gr - cov[i][j] / (sd[i] * sd[j])) <= 1e-5:
                    ctx.violation(f'get_corr:{kind}', cfg=cfg, kind=kind, i=i, j=j, expected=cov[i][j] / (sd[i] * sd[j]), observed=gr)
                    bad = True; break
        if bad:
            continue
        for i in range(n + 1):
            for j in range(n + 1):
                scale = abs(cov[i][j] + mean[i] * mean[j]) + abs(mean[i] * mean[j])
                if not (abs(r['cov'][i, j] - cov[i][j]) <= 1e-6 * scale + 1e-300):
                    ctx.violation(f'cov:{kind}', cfg=cfg, kind=kind, i=i, j=j, expected=cov[i][j], observed=float(r['cov'][i, j]), scale=scale)
                    bad = True; break
                want = cov[i][j] / (sd[i] * sd[j]) if sd[i] > 0 and sd[j] > 0 else 0.0
                if not (abs(r['corr'][i, j] - want) <= 1e-5):
                    ctx.violation(f'corr:{kind}', cfg=cfg, kind=kind, i=i, j=j, expected=want, observed=float(r['corr'][i, j]))
                    bad = True; break
            if bad:
                break
        if bad:
            continue
        # the same observables read AGAIN from the same object, after everything else (corr, get_cov, get_corr) has been
        # read: the values the user sees must not depend on what was looked at before
        for name in ('cov', 'var', 'mean', 'corr'):
            with C.LogCapture():
                again = np.array(getattr(dist, name).data, dtype=float)
            if again.shape != r[name].shape or not np.allclose(again, r[name], rtol=1e-12, atol=1e-300, equal_nan=True):
                ctx.violation(f'reread:{name}:{kind}', cfg=cfg, kind=kind, expected=r[name].tolist(), observed=again.tolist(),
                              note='expected = first reading (agreed with the model); observed = second reading of the same '
                                   'attribute on the same object after corr / get_cov / get_corr were read')
                break
        ctx.count('reread')


def one(ctx, i):
    pg = C.import_phasegen()
    rng = random.Random(f'{ctx.seed}-c02-{i}')
    quick = ctx.quick
    if isinstance(i, str) and i.startswith('mm'):
        # multiple-merger models with enough lineages for two or more bystanders next to a merger (n >= 6), one deme
        cfg = gen.rand_cfg(rng, n_max=4, demes_max=1, epochs_max=2)
        cfg['n'][list(cfg['n'])[0]] = rng.choice([6, 6, 7])
        cfg['model'] = rng.choice([('dirac', rng.choice([0.25, 0.3, 0.75]), rng.choice([0.5, 2.0, 4.0]), rng.random() < 0.5),
                                   ('beta', rng.choice([1.25, 1.5, 1.75]), rng.random() < 0.5)])
        return compare(ctx, cfg, pg, 48 if quick else 110)
    D = rng.choice([1, 1, 2]) if quick else rng.choice([1, 1, 2, 2, 3])
    nmax = {1: 6 if quick else 7, 2: 4 if quick else 5, 3: 3 if not quick else 3}[D]     # n = 6: first size with two bystander lineages next to a merger (Dirac)
    cfg = None
    for _ in range(30):
        c = gen.rand_cfg(rng, n_max=nmax, demes_max=D, epochs_max=2 if quick else 3)
        if len(c['n']) == D:
            cfg = c; break
    if cfg is None:
        cfg = gen.rand_cfg(rng, n_max=nmax, demes_max=1, epochs_max=2)
    if rng.random() < 0.3:
        cfg['end_time'] = float(2.0 ** rng.randint(-1, 3))
    compare(ctx, cfg, pg, 48 if quick else 110)


def run(ctx):
    import check
    check.pmap(ctx, 'props.c02', 'one', list(range(48 if ctx.quick else 160)) + [f'mm-{j}' for j in range(8 if ctx.quick else 40)], case_timeout=200 if ctx.quick else 1500)


def replay(ctx, payload):
    pg = C.import_phasegen()
    compare(ctx, conv.cfg_from_json(payload['cfg']), pg, 400)
