HOOK_COMMITS = []
NOT_APPLICABLE = {}
TB = ('Trusted: Lean kernel + propext/Classical.choice/Quot.sound; Mathlib definitions; the correspondence check '
      '(hand-written model tied to /repo by differential testing on generated inputs); ')
CHECKS = {
 'C04': dict(
    technique='Lean 4 proof (lumping of the labelled particle system) + exhaustive model/implementation correspondence',
    text='Lean theorems about the code model of transit/BFS/alpha (generator shape, absorbing states, lumping); the model is tied '
         'to the real state spaces by an exhaustive diff of states, every rate in two generic epochs and alpha over the '
         'bound the property states (n<=5 x <=3 demes x 3 models x 2 spaces; two loci n<=4 x <=2 demes), and the real rows are '
         'checked against an independent labelled-process oracle.',
    note=TB + 'PT3 (the structured Lambda-coalescent is the particle system of the Spec) is textbook, not proved.'),
}
