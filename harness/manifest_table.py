import os
HOOK_COMMITS = []
NOT_APPLICABLE = {}
TB = ('Trusted: Lean 4.33 kernel with propext / Classical.choice / Quot.sound only (audited by #print axioms on every registered '
      'theorem on every run; no sorry / native_decide / own axioms); Mathlib definitions; the hand-written model is tied to /repo by '
      'the correspondence check (differential testing on generated inputs, bounded by generator coverage). ')
PT = 'Modelled, not verified: phase-type theory PT1-PT4 (DESIGN.md §3), scipy.linalg.expm ~ exp, IEEE doubles, fixExp ~ exp (self-tested). '

def entry(technique, text, note):
    return dict(technique=technique, text=text, note=TB + note)

CHECKS = {
 'C01': entry('Lean 4 proof (lumping + Van Loan algebra, headline theorem C01_moments_eq_labelled) + model/implementation correspondence',
    'Theorem: every moment the code model computes on lineage counts equals the moment of the labelled structured coalescent, for all n, demes, '
    'models, epochs, orders, any exponential obeying four laws (instantiated by the real matrix exponential); sweep/scatter, regularisation, '
    'centring proved. The model (transit, BFS, rewards, alpha, accumulate, centring) is run by a compiled driver with a 160-bit fixed-point '
    'exponential and diffed against the real moments at the tolerances of the statement on ~130 random configurations per run.',
    PT + 'Numerical accuracy clauses are measured, not proved (partial).'),
 'C02': entry('Lean 4 proof (block-counting lumping incl. multiple mergers, SFS assembly) + model/implementation correspondence',
    'Theorem C02_sfs_eq_labelled: moments on the block-counting chain equal those of the labelled coalescent on typed blocks (all n, all three models); '
    'padding and covariance assembly proved. Real sfs/fsfs mean, var, cov, corr diffed against the model incl. bins 0 and n.', PT),
 'C03': entry('Lean 4 proof (cdf lumping, monotonicity/range from the exponential laws, _update composition, bisection spec) + correspondence',
    'Theorems: cdf of the code chain = cdf of the labelled chain (1 and 2 loci), 0<=cdf<=1, non-decreasing, sorted sweep and _update are direct '
    'evaluation also exactly on epoch boundaries, quantile bisection meets its precision. Real cdf/quantile/pdf diffed against the model; '
    'cdf(0)=0, monotone, range, integral of 1-cdf = mean checked on the real code.',
    PT + 'Integral identity and pdf (numerical differentiation in the code) are measured (partial).'),
 'C04': entry('Lean 4 proof (unbounded lumping theorems for all three state spaces, BFS and rate-matrix correctness) + exhaustive correspondence',
    'Theorems for every n / deme count / rates: lineage-, block- (Kingman, Beta, Dirac) and two-locus state spaces are exact lumpings of the labelled '
    'particle system; BFS lists each reachable state once; rows represent the generator, sum to zero, non-negative; absorbing states only migrate. '
    'Correspondence exhaustive over the bound of the property (489 cases: states, every rate in two generic epochs, alpha) plus an independent '
    'labelled-process oracle on every real row.', 'PT3 (the coalescent is this particle system) is textbook. '),
 'C05': entry('Lean 4 proof on the code model of Demography.epochs (tiling, value in force, lookup, order independence) + correspondence',
    'Theorems on the model of the epochs generator; kernel-checked counterexamples for the three historic defects. 1500 random event lists per run '
    '(all event classes, shapes, orders, add_event) diffed epoch by epoch against the model and against an independent Spec; random histories on the mutable object (constructor / add_events / add_event / epochs / reads / Coalescent) against PGModel/DemoObj; the split orientation '
    'is a listed known finding (baseline test pins it).', 'Mixed schedules (discretised + discrete + split events) have whole-schedule theorems (mixed_*); the float ceil of non-dyadic step counts is exercised, not proved (partial). '),
 'C06': entry('Lean 4 proof (two-locus lumping, marginal strong lumping for every r, r=0 coincidence) + correspondence',
    'Theorems: two-locus chain = lumping of the ARG stopped at absorption; each locus is a strong lumping onto the single-locus chain for every r; '
    'r=0 gives equal cross and second moments. Real joint/marginal moments and covariances diffed against the model; marginals compared with the real '
    'single-locus results; r=0 corr=1; cov decreasing to 0 along r.', PT + 'r -> infinity is observed along a sequence (partial).'),
 'C09': entry('Lean 4 proof (time-rescaling and regularisation laws from the exponential laws; model time scales) + metamorphic correspondence',
    'Theorems accumVal_time_rescale / cdfVal_time_rescale / accumVal_scale for all k, epochs; time-scale scaling incl. real powers for Beta. Real code '
    'evaluated at scales 1e-3..1e9 (1e-9 relative when no warning), regularize on/off, model at extreme scales.', PT + 'Float accuracy measured (partial).'),
 'C14': entry('Lean 4 proof on definitions REGENERATED from the Python AST on every run (translator) + exact table correspondence',
    'harness/extract_rates.py regenerates lean/Generated/Rates.lean from coalescent_models.py before each run; GenBridge proves generated = model; '
    'RatesThm proves rate = C(b,k)*lambda, Beta = Beta-function ratio = Lambda-integral, consistency, non-negativity, limits, Vandermonde outcome sums, '
    'time scales. Real functions diffed against the exact table (2<=k<=b<=12, all block configurations <=6/7 lineages) and a Lambda-measure oracle.',
    'Primitives of the translation (scipy beta/comb/binom.pmf) are trusted to mean what they say. '),
 'C16': entry('Lean 4 proof (exact matrix algebra of the mutation-configuration formulas, orderings/unfoldings combinatorics) + exact-rational correspondence',
    'Theorems over any field: code matrix inverse, sum P_i = P_total, words regroup by configuration, mass telescopes, empty configuration = resolvent, '
    'expected counts, first-step recursion, _unfold / _get_partitions / distinct orderings specs. Real get_mutation_config diffed against the model in '
    'exact rational arithmetic (1e-10), plus independent numpy oracles for Laplace transform, mass, recursion, folded sum.',
    'PT4 (probabilistic reading of the resolvent) is textbook; non-negativity of the resolvent and 0 <= probability <= 1 are proved (resolvent_nonneg, config_orderings_prob_nonneg / _le_one, mutConfigProb_nonneg) and the sign hypotheses are discharged for the matrices the code model builds (C16_code_prob_total / _folded: the executable returns a value - Gauss-Jordan success proved by a loop invariant - and it lies in [0, 1], unfolded and folded). Partial: PT4 only. '),
}

_P = {
 'C07': entry('Lean 4 proof (scatter_argsort; sorted sweep = direct evaluation) + pointwise-vs-vector oracle on the real code',
    'Theorem for every finite time sequence, any order/duplicates: the i-th returned value is the value for the i-th time (instantiated for _accumulate, '
    'cdf, pdf (model of its two vector cdf calls, PdfVec), get_epochs); kernel-checked counterexample for the pre-fix gather. Real vector calls compared with single-time calls for 5 entry points, all '
    'container types; model argsort vs numpy.', ''),
 'C08': entry('Lean 4 proof (relabelling invariance of moments/cdf) + metamorphic correspondence incl. PYTHONHASHSEED sweep',
    'Theorems C08_moments_perm / C08_cdf_perm (state level, on the BFS graphs the code builds) and the input-glue model: config_named_semantics, '
    'config_listing_order_irrelevant, config_rename_equivariant, config_hash_independent (any iteration order of the set of unsampled names), composed in '
    'config_moments_listing_order_irrelevant; real code under renaming, permuted listing order in every container, omitted unsampled demes; glue tables read back '
    'from the real rate matrix and diffed against the model; subprocess sweep over hash seeds.', 'Hash-seed independence of the real interpreter is exercised (the model quantifies over all set orders); permuting the inner {time: value} dicts is not covered by the glue theorem (partial). '),
 'C10': entry('Lean 4 proof (merge of redundant boundaries, grid refinement, monotonicity, horizon-search spec) + metamorphic oracle on the real code',
    'Theorems from the exponential laws; real code: redundant change points, coarse vs fine grids, three end-time routes, additivity, monotone raw curves, '
    'default horizon equals the infinite-horizon value or a warning is logged. Call layer (None/0/positive start and end times, window = difference, routes agree) '
    'modelled in PGModel/Api.lean, theorems api_window_additive / api_routes_agree / api_explicit_zero_*, real moment()/accumulate() diffed against it.', PT),
 'C11': entry('Lean 4 proof (reward identities on every block-counting state, linearity of means, both spaces lump one labelled process) + relational oracle',
    'Theorems sum_sfs_eq_tbl, weighted_sfs_eq_n_height, folded_eq_fold, accumVal_one_linear; real sums/folds/spaces compared at 1e-9 of the raw scale; '
    'reward vectors diffed exactly against the model.', 'Multilinearity in every reward slot is proved for all orders (accumVal_slot_linear, C11_sum_cov); the floating-point closeness of the real sums is measured (partial). '),
 'C12': entry('Lean 4 proof (deme/locus reward decompositions, linearity, unreachable classes) + relational oracle on the real code',
    'Theorems deme_rewards_sum_one, deme_prod_sum, tbl_eq_sum_tblLocus, accumVal_congr_closed; real marginal sums, covariance sums, symmetry, PSD, '
    'empty-deme zeros; the assembly layer (get_cov / cov / corr of demes and loci) modelled in PGModel/Marginals.lean with getCov_symm, cov_sum_eq_var, corr_is_normalised_cov and diffed against the real containers.', 'PSD and |corr| <= 1 need the probabilistic representation (partial, measured). '),
 'C13': entry('Lean 4 proof (kernel intertwining of sample removal for every consistent Lambda, projection and monotonicity theorems) + relational oracle',
    'Theorems kernel_intertwine, C13_sfs, C13_height, C13_tbl, lam_consistent in full generality; real SFS(n) vs projected SFS(n+1), monotone means, '
    'rate consistency on the real functions.', PT),
 'C15': entry('Lean 4 proof (centring = central moment for all k, symmetry under all permutations, slot additivity) + route/relational oracle',
    'Theorems accumulate_center_eq(_central_moment), accumulate_perm, uncentred_add; real code: binomial combinations, symmetry, linearity, all documented '
    'routes pairwise, memo-key separation, PSD/unit diagonal; model values for small cases; call layer of moment/accumulate (accumulateCall_eq) and memo keys (memo_keyEq_iff, memo_reward_tuples_separate) diffed against the real methods.', 'PSD measured (partial). '),
 'C17': entry('Lean 4 proof (cache state machine refinement: every read returns the matrix of the current epoch) + history-based correspondence',
    'Theorems C17_refinement (StateSpace rate-matrix cache), share_refinement (state spaces shared by Inference.get_coal) and memo_refinement / memo_order_irrelevant / memo_fresh_equiv (functools.cache on moment, _accumulate, _get_P and the '
    'cached_property slots: every query history answers like the memo-free evaluator); real code: random query histories vs fresh objects, cache off, shared state spaces '
    'through Inference.get_coal, parallel vs sequential; hit/miss pattern and answers diffed against both models; the concrete cache key (EpochKey: key_sound_table, cache_instantiated_table) with real Epoch == / hash on random pairs.', 'Worker pools: parallelize_schedule_irrelevant (any completion schedule) + the real utils.parallelize with and without progress bar; that multiprocessing delivers each result exactly once is trusted. '),
 'C18': entry('Lean 4 proof on a model with the codec as a parameter + round-trip oracle on the real code', 
    'Theorems: round trip preserves statistics because statistics depend on the configuration only (C17 refinement), original untouched, idempotent; '
    'field level: roundtrip_dict_coalescent / roundtrip_dict_inference / roundtrip_x0_stable on the __getstate__/__setstate__ dict model; '
    'real round trips via string and file for Coalescent, SFS2, Inference; configuration fields and start points diffed against the model.', 'jsonpickle/dill correctness is the parameter law (partial by construction). '),
 'C19': entry('Lean 4 proof (best-run selection, merge order independence, bootstrap rows, create_run start values) + invariant oracle on real runs',
    'Theorems C19_best, C19_merge, C19_bootstrap_rows, C19_create_run, and at dict level C19_labels_within_bounds / C19_labels_order_irrelevant (x0 listed in any key order) '
    'with the optimiser as a parameter; real tiny inference problems: invariants, reproducibility, cache on/off, merge histories; _run/_optimize labelling diffed against the model; the loss functions (LossThm: norms zero iff equal, Poisson NLL minimal exactly at the truth, best_run_is_truth_*) with the real compute() against the defining formulas and the exact model.', 'L-BFGS-B behaviour is a parameter (partial). '),
 'C20': entry('Lean 4 proof (validate is complete and sound for the invalid classes) + malformed-input correspondence',
    'Theorems C20_complete / C20_sound on the model of the constructor checks, api_length_mismatch_rejected / api_negative_order_rejected on the model of the call layer; '
    'real code fed every invalid class by every route and valid neighbours; stiff sweep for silent NaN.', 'NaN clause is runtime exploration (partial). '),
}
_V = os.path.dirname(os.path.dirname(os.path.abspath(__file__)))
_reg = {}
try:
    import json
    _reg = json.load(open(os.path.join(_V, 'lean', 'theorems.json')))
except Exception:
    pass
READY = set(open(os.path.join(_V, 'harness', 'ready.txt')).read().split()) if os.path.exists(os.path.join(_V, 'harness', 'ready.txt')) else set()
for pid, e in _P.items():
    if pid in READY:
        CHECKS[pid] = e
