#!/venv/bin/python
"""
Entry point of every registered check:

    /venv/bin/python harness/check.py --property C04 --tier quick

1. builds the Lean project (no-op when up to date) and audits the proof obligations of the property
   (theorems registered in lean/theorems.json exist, depend only on propext / Classical.choice / Quot.sound,
   no sorry / native_decide / own axioms anywhere);
2. runs the property's correspondence probes (Lean model vs the real PhaseGen from /repo's working tree) and
   its direct oracle on the real code;
3. reports:  failing input found -> `VIOLATION property=<id> replay=<path>`;
             proof or correspondence broken but no failing input -> `VIOLATION ... no-failing-input-found`;
             listed known finding -> `KNOWN-FINDING: property=<id> ...`, exit 0.
Exit codes: 0 held, 1 violation, 2 infrastructure problem / timeout.
"""
import argparse, importlib, os, sys, time, json, random, traceback, signal, multiprocessing as mp

sys.path.insert(0, os.path.dirname(os.path.abspath(__file__)))
import pgcommon as C


class Ctx:
    def __init__(self, pid, tier, seed):
        self.pid, self.tier, self.seed = pid, tier, seed
        self.rng = random.Random(f'{pid}-{seed}')
        self.violations = []      # failing inputs of the property on the real code
        self.corr_breaks = []     # model and implementation disagree (not by itself a violation)
        self.evaluations = 0
        self.nontrivial = set()
        self.samples = []
        self.dist = {}
        self.skipped = 0
        self.notes = []

    @property
    def quick(self):
        return self.tier == 'quick'

    def case(self, sample, nontrivial_key=None):
        self.evaluations += 1
        if nontrivial_key is not None:
            self.nontrivial.add(nontrivial_key)
        if len(self.samples) < 4:
            self.samples.append(C.jsonable(sample))

    def count(self, key, n=1):
        self.dist[key] = self.dist.get(key, 0) + n

    def violation(self, signature, **detail):
        self.violations.append(dict(signature=signature, **C.jsonable(detail)))

    def corr_break(self, probe, **detail):
        self.corr_breaks.append(dict(probe=probe, **C.jsonable(detail)))

    def merge(self, r):
        """merge the result dict of a worker"""
        self.evaluations += r.get('evaluations', 0)
        for k in r.get('nontrivial', []):
            self.nontrivial.add(k if not isinstance(k, list) else json.dumps(k))
        for s in r.get('samples', []):
            if len(self.samples) < 4:
                self.samples.append(s)
        for k, v in r.get('dist', {}).items():
            self.count(k, v)
        self.violations += r.get('violations', [])
        self.corr_breaks += r.get('corr_breaks', [])
        self.skipped += r.get('skipped', 0)


class TimeoutCase(Exception):
    pass


def _alarm(signum, frame):
    raise TimeoutCase()


def _worker(args):
    modname, fname, item, pid, tier, seed, case_timeout = args
    mod = importlib.import_module(modname)
    ctx = Ctx(pid, tier, seed)
    signal.signal(signal.SIGALRM, _alarm)
    signal.alarm(case_timeout)
    try:
        getattr(mod, fname)(ctx, item)
    except TimeoutCase:
        ctx.skipped += 1
        ctx.count('case-timeout')
        C.reset_driver()
    except Exception as e:
        ctx.corr_break('harness-exception', item=repr(item)[:2000], error=f'{type(e).__name__}: {e}',
                       trace=traceback.format_exc()[-1500:])
        C.reset_driver()
    finally:
        signal.alarm(0)
    return dict(evaluations=ctx.evaluations, nontrivial=[k for k in ctx.nontrivial], samples=ctx.samples,
                dist=ctx.dist, violations=ctx.violations, corr_breaks=ctx.corr_breaks, skipped=ctx.skipped)


def pmap(ctx, modname, fname, items, procs=None, case_timeout=300):
    """run `modname.fname(ctx, item)` for every item in worker processes and merge the results into ctx"""
    procs = procs or min(16, os.cpu_count() or 4)
    args = [(modname, fname, it, ctx.pid, ctx.tier, ctx.seed, case_timeout) for it in items]
    if procs == 1 or len(items) <= 1:
        for a in args:
            ctx.merge(_worker(a))
        return
    C.reset_driver()
    with mp.get_context('fork').Pool(procs) as pool:
        for r in pool.imap_unordered(_worker, args, chunksize=1):
            ctx.merge(r)


def main():
    ap = argparse.ArgumentParser()
    ap.add_argument('--property', required=True)
    ap.add_argument('--tier', default=os.environ.get('VERIF_TIER', 'quick'))
    ap.add_argument('--replay')
    ap.add_argument('--no-lean', action='store_true', help='skip the Lean build/audit (development only)')
    a = ap.parse_args()
    pid, tier = a.property, a.tier
    if a.no_lean or a.replay:
        os.environ['VERIF_EVIDENCE_SCRATCH'] = '1'     # evidence/<id>.json describes full quick/thorough runs only
    seed = int(os.environ.get('VERIF_SEED', '0'))
    t0 = time.time()

    try:
        mod = importlib.import_module(f'props.{pid.lower()}')
    except ModuleNotFoundError:
        print(f'no check for {pid}')
        return 2

    # ---- 1. proofs
    proof = dict(ok=True, obligations=0, discharged=0, failures=[], axioms={}, theorems=[], module='')
    build_log = ''
    if not a.no_lean:
        if hasattr(mod, 'pre_build'):
            mod.pre_build()          # e.g. regenerate Generated/*.lean from the Python source
        ok, build_log, dt = C.lake_build(['pgdriver'])
        if not ok:
            print('infrastructure: pgdriver does not build\n' + build_log[-2000:])
            return 2
        reg = C.load_theorems().get(pid, {})
        okp, logp, dt = C.lake_build([reg.get('module', f'PGProperties.{pid}')])
        if not okp:
            proof = dict(ok=False, obligations=len(reg.get('theorems', [])), discharged=0,
                         failures=['lake build of ' + reg.get('module', pid) + ' failed: ' + logp[-1500:]],
                         axioms={}, theorems=reg.get('theorems', []), module=reg.get('module', ''))
        else:
            proof = C.audit_property(pid)
            if tier == 'thorough' and proof['ok']:
                import subprocess
                p = subprocess.run(['lake', 'env', 'leanchecker', proof['module']], cwd=C.LEAN, capture_output=True,
                                   text=True, timeout=3000)
                proof['leanchecker'] = 'ok' if p.returncode == 0 else (p.stdout + p.stderr)[-800:]
                if p.returncode != 0:
                    proof['ok'] = False
                    proof['failures'].append('leanchecker rejected ' + proof['module'])

    # ---- 2. correspondence + oracle
    ctx = Ctx(pid, tier, seed)
    try:
        if a.replay:
            mod.replay(ctx, json.load(open(a.replay)))
        else:
            mod.run(ctx)
    except Exception as e:
        print('infrastructure: ' + traceback.format_exc())
        return 2

    # ---- 3. verdict
    known = [k for k in C.known_findings() if k.get('property') == pid and k.get('status') == 'known']
    unlisted, listed = [], {}
    for v in ctx.violations:
        hit = next((k for k in known if k['signature'] == v['signature']), None)
        if hit:
            listed.setdefault(hit['signature'], (hit, v))
        else:
            unlisted.append(v)
    for sig, (hit, v) in listed.items():
        print(f"KNOWN-FINDING: property={pid} {hit['what']}")
    lines = []
    seen = set()
    for i, v in enumerate(unlisted):
        if v['signature'] in seen:
            continue
        seen.add(v['signature'])
        payload = dict(v)
        payload.update(property=pid, replay_kind='failing-input', tier=tier, seed=seed,
                       how_to_replay=f'/venv/bin/python harness/check.py --property {pid} --replay <this file>')
        path = C.write_replay(pid, seed, len(seen), payload)
        lines.append(f'VIOLATION property={pid} replay={path}')
        if len(seen) >= 5:
            break
    if not unlisted:
        if not proof['ok']:
            path = C.write_replay(pid, seed, 'proof', dict(property=pid, replay_kind='broken-proof', failures=proof['failures'],
                                  theorems=proof['theorems'], note='searched the implementation for a failing input '
                                  f'({ctx.evaluations} evaluations) and found none'))
            lines.append(f'VIOLATION property={pid} replay={path} no-failing-input-found')
        elif ctx.corr_breaks:
            path = C.write_replay(pid, seed, 'corr', dict(property=pid, replay_kind='broken-correspondence',
                                  breaks=ctx.corr_breaks[:10], note='model and implementation disagree; the direct '
                                  f'oracle found no failing input in {ctx.evaluations} evaluations'))
            lines.append(f'VIOLATION property={pid} replay={path} no-failing-input-found')
    for l in lines:
        print(l)

    wall = time.time() - t0
    meta = getattr(mod, 'META', {})
    coverage = dict(
        obligations=max(proof['obligations'], 1) if proof['theorems'] else 0,
        discharged=proof['discharged'],
        checker_cmd=f"cd lean && lake build {proof['module']} && lake env lean <#print axioms of each registered theorem>",
        trusted_base=meta.get('trusted_base', []) + [
            'Lean 4.33 kernel; axioms used: ' + ', '.join(sorted({x for v in proof['axioms'].values() for x in v}) or ['none']),
            'harness/ correspondence check (generator coverage bounds what it sees)'],
        theorems=proof['theorems'],
        proof_failures=proof['failures'],
        evaluations=ctx.evaluations,
        distinct_nontrivial=len(ctx.nontrivial),
        rule=meta.get('rule', ''),
        samples=ctx.samples or [dict(note='no cases')],
        input_distribution=ctx.dist,
        skipped=ctx.skipped,
        correspondence_breaks=len(ctx.corr_breaks),
        known_findings_hit=sorted(listed),
        exhaustive=bool(meta.get('exhaustive_' + tier, False)),
    )
    if 'leanchecker' in proof:
        coverage['leanchecker'] = proof['leanchecker']
    if not proof['theorems']:
        # no theorem registered: fall back to the exploration keys only
        coverage.pop('obligations'); coverage.pop('discharged')
    C.write_evidence(pid, tier, seed, meta.get('level', 'proof'), coverage, meta.get('assumptions', []), wall,
                     len(seen))
    print(f'{pid} {tier} seed={seed}: evaluations={ctx.evaluations} nontrivial={len(ctx.nontrivial)} '
          f'violations={len(seen)} known={len(listed)} corr_breaks={len(ctx.corr_breaks)} '
          f'proof={proof["discharged"]}/{proof["obligations"]} skipped={ctx.skipped} wall={wall:.1f}s')
    return 1 if lines else 0


if __name__ == '__main__':
    try:
        sys.exit(main())
    finally:
        C.reset_driver()
