"""Input generators. Every random choice derives from the rng handed in (seeded by VERIF_SEED)."""
import itertools, math
from fractions import Fraction

PRIMES = [2, 3, 5, 7, 11, 13, 17, 19, 23, 29, 31, 37, 41, 43, 47, 53, 59, 61, 67, 71, 73, 79, 83, 89, 97, 101, 103,
          107, 109, 113, 127, 131, 137, 139, 149, 151, 157, 163, 167, 173, 179, 181, 191, 193, 197, 199]

NAME_SETS = [['pop_0', 'pop_1', 'pop_2'], ['b', 'a', 'c'], ['zeta', 'alpha', 'mid'], ['B', 'a', 'C']]


def splits(n, D):
    """all vectors of D non-negative integers summing to n"""
    if D == 1:
        return [(n,)]
    return [(i,) + r for i in range(n + 1) for r in splits(n - i, D - 1)]


def dyadic(rng, lo=-3, hi=3):
    return float(2.0 ** rng.randint(lo, hi))


def rand_model(rng, kinds=('kingman', 'beta', 'dirac')):
    k = rng.choice(kinds)
    if k == 'kingman':
        return ('kingman',)
    if k == 'beta':
        return ('beta', rng.choice([1.125, 1.25, 1.5, 1.75, 1.875]), rng.random() < 0.7)
    return ('dirac', rng.choice([0.125, 0.25, 0.5, 0.75]), rng.choice([0.0, 0.5, 1.0, 4.0, 16.0]), rng.random() < 0.7)


def generic_rate(rng, used):
    """a 'generic' positive rate: ratio of two fresh primes (distinct rate polynomials cannot agree by accident)"""
    while True:
        p, q = rng.sample(PRIMES, 2)
        if (p, q) not in used:
            used.add((p, q))
            return p / q


def rand_epochs(rng, names, n_epochs, generic=False, zero_mig_prob=0.25, lo=-3, hi=3, tmax_log=2):
    eps = []
    t = 0.0
    used = set()
    for e in range(n_epochs):
        sizes = {p: (generic_rate(rng, used) if generic else dyadic(rng, lo, hi)) for p in names}
        mig = {}
        for a in names:
            for b in names:
                if a != b:
                    if rng.random() < zero_mig_prob and not generic:
                        mig[(a, b)] = 0.0
                    else:
                        mig[(a, b)] = generic_rate(rng, used) if generic else dyadic(rng, -3, 1)
        eps.append(dict(start=t, sizes=sizes, mig=mig))
        t = t + 2.0 ** rng.randint(-3, tmax_log)
    return eps


def connected(cfg_epoch, names):
    """is the last epoch's migration graph strongly connected enough for coalescence to be certain?"""
    if len(names) == 1:
        return True
    # some deme reachable from every deme
    adj = {a: {b for b in names if a != b and cfg_epoch['mig'].get((a, b), 0) > 0} for a in names}
    def reach(a):
        seen, st = {a}, [a]
        while st:
            x = st.pop()
            for y in adj[x]:
                if y not in seen:
                    seen.add(y); st.append(y)
        return seen
    common = set(names)
    for a in names:
        common &= reach(a)
    return bool(common)


def rand_cfg(rng, n_max=5, demes_max=3, epochs_max=3, kinds=('kingman', 'beta', 'dirac'), loci=1, ensure_connected=True,
             unsampled_prob=0.2, lo=-3, hi=3):
    D = rng.randint(1, demes_max)
    names = list(rng.choice(NAME_SETS)[:D])
    rng.shuffle(names)
    n = rng.randint(2, n_max)
    while True:
        vec = rng.choice(splits(n, D))
        if D == 1 or rng.random() < unsampled_prob or all(v > 0 for v in vec) or True:
            break
    model = rand_model(rng, kinds) if loci == 1 else ('kingman',)
    ne = rng.randint(1, epochs_max)
    for _ in range(50):
        eps = rand_epochs(rng, names, ne, lo=lo, hi=hi)
        if not ensure_connected or connected(eps[-1], names):
            break
    else:
        for a in names:
            for b in names:
                if a != b:
                    eps[-1]['mig'][(a, b)] = 0.5
    # a fifth of the structured configurations are island models (one rate for all pairs within an epoch): the shape that
    # SymmetricMigrationRateChanges writes (chosen from the configuration itself, no extra random draws)
    if D >= 2 and (n + ne + sum(len(e['mig']) for e in eps)) % 5 == 0:
        for e in eps:
            v = max(list(e['mig'].values()) + [0.0]) or 0.5
            e['mig'] = {(a, b): v for a in names for b in names if a != b}
    cfg = dict(n={p: v for p, v in zip(names, vec)}, model=model, epochs=eps, loci=loci)
    if loci == 2:
        cfg['r'] = rng.choice([0.0, 0.125, 1.0, 8.0])
        cfg['n_unl'] = rng.choice([0, 0, 1, n])
    return cfg


def cfg_key(cfg):
    return repr((sorted(cfg['n'].items()), cfg['model'], [(e['start'], sorted(e['sizes'].items()), sorted(e['mig'].items()))
                 for e in cfg['epochs']], cfg.get('loci', 1), cfg.get('r'), cfg.get('n_unl'), cfg.get('end_time'),
                 cfg.get('start_time')))
