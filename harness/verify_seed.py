#!/usr/bin/env python3
"""
Development tool: confirm a seeded change delivered by a sub-agent in /tmp/seed/<PID>.{patch.diff,demo.py,meta.json}
(worktree /tmp/seed/<PID>) and file it under /verif/seeded/<name>/.
  1. demo exits 1 on the changed worktree and 0 on pristine /repo,
  2. the baseline suite still passes every stable_pass test on the changed worktree,
  3. runs the given checks against a scratch copy with the patch (VERIF_REPO) and records their verdicts.
usage: verify_seed.py <PID> <name> <check> [<check> ...]
"""
import json, os, subprocess, sys, shutil, tempfile, xml.etree.ElementTree as ET
pid, name, checks = sys.argv[1], sys.argv[2], sys.argv[3:]
S = '/tmp/seed'
wt = f'{S}/{pid}'
env = dict(os.environ, OMP_NUM_THREADS='1', OPENBLAS_NUM_THREADS='1', MKL_NUM_THREADS='1')
ran = []
def run(cmd, **kw):
    ran.append(cmd if isinstance(cmd, str) else ' '.join(cmd))
    return subprocess.run(cmd, shell=isinstance(cmd, str), capture_output=True, text=True, **kw)
# fresh scratch worktree with the delivered patch applied (independent of the agent's own worktree)
patch = f'{S}/{pid}.patch.diff' if os.path.exists(f'{S}/{pid}.patch.diff') else f'/verif/seeded/{name}/patch.diff'
if not os.path.exists(f'{S}/{pid}.demo.py'):
    shutil.copy(f'/verif/seeded/{name}/demo.py', f'{S}/{pid}.demo.py')
    shutil.copy(f'/verif/seeded/{name}/meta.json', f'{S}/{pid}.meta.json')
    shutil.copy(patch, f'{S}/{pid}.patch.diff')
wt = f'/tmp/seedv/{name}'
run(f'git -C /repo worktree remove --force {wt}')
os.makedirs('/tmp/seedv', exist_ok=True)
r = run(f'git -C /repo worktree add -q --detach {wt} HEAD && git -C {wt} apply {S}/{pid}.patch.diff')
assert r.returncode == 0, r.stderr
pp = wt + '.pp'
if os.path.islink(pp): os.unlink(pp)
os.symlink(wt, pp)
env['PYTHONPATH'] = pp
r1 = run(f'/venv/bin/python {S}/{pid}.demo.py', env=dict(env, DEMO_REPO=wt, PYTHONPATH=''), cwd='/tmp')
r0 = run(f'/venv/bin/python {S}/{pid}.demo.py', env=dict(env, DEMO_REPO='/repo', PYTHONPATH=''), cwd='/tmp')
print('demo changed exit', r1.returncode, '| pristine exit', r0.returncode)
print((r1.stdout + r1.stderr)[-600:])
junit = f'{S}/{pid}.verify.junit.xml'
t = run(f'cd {wt} && /venv/bin/python -m pytest -q -p no:cacheprovider --timeout=900 --continue-on-collection-errors --junitxml={junit} > {S}/{pid}.verify.log 2>&1', env=env)
which = run(f'cd {wt} && /venv/bin/python -c "import testing, phasegen; print(phasegen.__file__)"', env=env).stdout.strip().split(chr(10))[-1]
print('suite imported phasegen from', which)
assert which.startswith(wt) or which.startswith(pp), which
passed = set()
for tc in ET.parse(junit).iter('testcase'):
    if not list(tc):
        passed.add(tc.get('classname') + '::' + tc.get('name'))
base = set(json.load(open('/root/.vp/BASELINE.json'))['stable_pass'])
missing = sorted(base - passed)
print('baseline stable_pass:', len(base), 'passed now:', len(base & passed), 'missing:', missing[:5])
ok = r1.returncode == 1 and r0.returncode == 0 and not missing
verdicts = {}
for c in checks:
    p = run(f'cd /verif && NOLEAN={os.environ.get("NOLEAN", "1")} harness/runseed.sh {S}/{pid}.patch.diff {c}')
    out = p.stdout
    verdicts[c] = [l for l in out.split('\n') if 'VIOLATION' in l or l.startswith(c)]
    print(c, '->', verdicts[c])
dst = f'/verif/seeded/{name}'
if ok:
    os.makedirs(dst, exist_ok=True)
    shutil.copy(f'{S}/{pid}.patch.diff', f'{dst}/patch.diff')
    shutil.copy(f'{S}/{pid}.demo.py', f'{dst}/demo.py')
    meta = json.load(open(f'{S}/{pid}.meta.json'))
    meta.update(confirmed=dict(demo_exit_changed=r1.returncode, demo_exit_pristine=r0.returncode,
                               baseline_stable_pass_missing=missing, commands=ran[:6]),
                checks_run=verdicts,
                detected_by=[c for c, v in verdicts.items() if any('VIOLATION' in l for l in v)])
    json.dump(meta, open(f'{dst}/meta.json', 'w'), indent=1)
    print('filed under', dst, 'detected_by', meta['detected_by'])
else:
    print('NOT CONFIRMED')
run(f'git -C /repo worktree remove --force {wt}')
if os.path.islink(pp): os.unlink(pp)
