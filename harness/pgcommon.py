"""
Shared plumbing of the PhaseGen verification harness: locating the repository under test, driving the
Lean model (`pgdriver`), building / auditing the Lean project, writing evidence and replay files,
known findings, log capture.
"""
import os, sys, json, time, subprocess, logging, re, itertools, math, random, traceback, hashlib
from fractions import Fraction

VERIF = os.path.dirname(os.path.dirname(os.path.abspath(__file__)))
LEAN = os.path.join(VERIF, 'lean')
DRIVER = os.path.join(LEAN, '.lake', 'build', 'bin', 'pgdriver')
REPO = os.environ.get('VERIF_REPO', '/repo')

# always execute the working tree of the repository under test
sys.path.insert(0, REPO)
os.environ.setdefault('PHASEGEN_VERIF', '1')
os.environ.setdefault('MPLBACKEND', 'Agg')
# one BLAS thread per worker process: the checks parallelise over cases
for _v in ('OMP_NUM_THREADS', 'OPENBLAS_NUM_THREADS', 'MKL_NUM_THREADS', 'NUMEXPR_NUM_THREADS'):
    os.environ.setdefault(_v, '1')
import warnings
warnings.filterwarnings('ignore')


def import_phasegen():
    import phasegen as pg
    assert os.path.abspath(pg.__file__).startswith(os.path.abspath(REPO)), (pg.__file__, REPO)
    logging.getLogger('phasegen').setLevel(logging.WARNING)
    # silence the colour stream handler, we capture records ourselves
    for h in list(logging.getLogger('phasegen').handlers):
        logging.getLogger('phasegen').removeHandler(h)
    logging.getLogger('phasegen').addHandler(logging.NullHandler())
    logging.getLogger('phasegen').propagate = False
    return pg


class LogCapture(logging.Handler):
    """Collects phasegen log records (the properties speak about 'a warning is logged')."""

    def __init__(self, level=logging.WARNING):
        super().__init__(level)
        self.records = []

    def emit(self, record):
        try:
            self.records.append((record.levelname, record.getMessage()))
        except Exception:
            self.records.append((record.levelname, str(record.msg)))

    def __enter__(self):
        logging.getLogger('phasegen').addHandler(self)
        return self

    def __exit__(self, *a):
        logging.getLogger('phasegen').removeHandler(self)

    def any(self, pat=None):
        return any(pat is None or re.search(pat, m) for _, m in self.records)


# ---------------------------------------------------------------------------------------------
# rationals

def frac(x):
    """exact rational value of a python number (floats are dyadic rationals)"""
    if isinstance(x, Fraction):
        return x
    if isinstance(x, (int,)):
        return Fraction(x)
    import numpy as np
    if isinstance(x, (np.integer,)):
        return Fraction(int(x))
    return Fraction(float(x))


def rs(x):
    """rational -> protocol string"""
    if x is None or (isinstance(x, float) and math.isinf(x)):
        return 'inf'
    f = frac(x)
    return str(f.numerator) if f.denominator == 1 else f'{f.numerator}/{f.denominator}'


def parse_rat(s):
    return Fraction(s)


def rlist(xs):
    xs = list(xs)
    return ','.join(rs(x) for x in xs) if xs else '-'


def nlist(xs):
    xs = list(xs)
    return ','.join(str(int(x)) for x in xs) if xs else '-'


# ---------------------------------------------------------------------------------------------
# the Lean driver

class Driver:
    def __init__(self):
        if not os.path.exists(DRIVER):
            raise RuntimeError('pgdriver not built; run MANIFEST.setup_cmd (cd lean && lake build)')
        self.p = subprocess.Popen([DRIVER], stdin=subprocess.PIPE, stdout=subprocess.PIPE, text=True, bufsize=1)
        self.n_requests = 0

    def ask(self, line):
        assert '\n' not in line
        self.p.stdin.write(line + '\n')
        self.p.stdin.flush()
        out = self.p.stdout.readline()
        if out == '':
            raise RuntimeError(f'pgdriver died on request: {line[:200]}')
        self.n_requests += 1
        out = out.rstrip('\n')
        if out == 'bad-request' or out.startswith('error'):
            raise RuntimeError(f'pgdriver: {out} for request: {line[:300]}')
        return out

    def rats(self, line):
        out = self.ask(line)
        return [Fraction(t) for t in out.split()] if out else []

    def close(self):
        try:
            self.p.stdin.close()
            self.p.wait(timeout=5)
        except Exception:
            self.p.kill()


_driver = None


def driver():
    global _driver
    if _driver is None:
        _driver = Driver()
    return _driver


def reset_driver():
    global _driver
    if _driver is not None:
        _driver.close()
    _driver = None


# ---------------------------------------------------------------------------------------------
# building and auditing the Lean project

BAD_TOKENS = re.compile(r'\b(sorry|admit|native_decide|bv_decide|implemented_by)\b|^\s*axiom\s|unsafe\s|maxHeartbeats 0', re.M)


def strip_comments(src):
    # remove block comments (nested) and line comments
    out, i, depth = [], 0, 0
    while i < len(src):
        if src.startswith('/-', i):
            depth += 1; i += 2; continue
        if depth and src.startswith('-/', i):
            depth -= 1; i += 2; continue
        if depth:
            i += 1; continue
        if src.startswith('--', i):
            j = src.find('\n', i)
            i = len(src) if j < 0 else j
            continue
        out.append(src[i]); i += 1
    return ''.join(out)


def lean_sources():
    files = []
    for root, _, fs in os.walk(LEAN):
        if '.lake' in root:
            continue
        for f in fs:
            if f.endswith('.lean'):
                files.append(os.path.join(root, f))
    return sorted(files)


def lake_build(targets=None, timeout=3000):
    """(ok, log). No-op when up to date."""
    cmd = ['lake', 'build'] + (targets or [])
    t0 = time.time()
    p = subprocess.run(cmd, cwd=LEAN, capture_output=True, text=True, timeout=timeout)
    return p.returncode == 0, (p.stdout + p.stderr)[-6000:], time.time() - t0


def load_theorems():
    with open(os.path.join(LEAN, 'theorems.json')) as fh:
        return json.load(fh)


ALLOWED_AXIOMS = {'propext', 'Classical.choice', 'Quot.sound'}


def audit_property(pid):
    """
    Proof obligations of one property: every theorem registered for it in lean/theorems.json must exist in
    the compiled project and depend on no axiom beyond the three standard ones; no sorry / native_decide /
    own axioms anywhere in the sources.
    Returns dict(ok, obligations, discharged, failures[...], axioms{thm:[...]}).
    """
    reg = load_theorems().get(pid, {})
    thms = reg.get('theorems', [])
    module = reg.get('module', f'PGProperties.{pid}')
    failures = []
    # 1. source scan
    for f in lean_sources():
        src = strip_comments(open(f).read())
        m = BAD_TOKENS.search(src)
        if m:
            failures.append(f'forbidden token {m.group(0).strip()!r} in {os.path.relpath(f, VERIF)}')
    # 2. axioms of every registered theorem
    axioms = {}
    if thms:
        body = f'import {module}\n' + ''.join(f'#print axioms {t}\n' for t in thms)
        tmp = os.path.join(LEAN, f'.audit_{pid}_{os.getpid()}.lean')
        with open(tmp, 'w') as fh:
            fh.write(body)
        try:
            p = subprocess.run(['lake', 'env', 'lean', tmp], cwd=LEAN, capture_output=True, text=True, timeout=1200)
            out = p.stdout + p.stderr
        finally:
            os.unlink(tmp)
        for t in thms:
            m = re.search(r"'" + re.escape(t) + r"' depends on axioms: \[([^\]]*)\]", out, re.S)
            m0 = re.search(r"'" + re.escape(t) + r"' does not depend on any axioms", out)
            if m0:
                axioms[t] = []
            elif m:
                axioms[t] = [a.strip() for a in m.group(1).replace('\n', ' ').split(',') if a.strip()]
                extra = set(axioms[t]) - ALLOWED_AXIOMS
                if extra:
                    failures.append(f'theorem {t} depends on non-standard axioms {sorted(extra)}')
            else:
                failures.append(f'theorem {t} not found / does not check ({module})')
        if p.returncode != 0 and not failures:
            failures.append('audit file failed to elaborate: ' + out[-500:])
    discharged = sum(1 for t in thms if t in axioms and not (set(axioms[t]) - ALLOWED_AXIOMS))
    return dict(ok=not failures, obligations=len(thms), discharged=discharged, failures=failures, axioms=axioms,
                module=module, theorems=thms)


# ---------------------------------------------------------------------------------------------
# known findings, replays, evidence

def known_findings():
    p = os.path.join(VERIF, 'known_findings.json')
    if not os.path.exists(p):
        return []
    with open(p) as fh:
        return json.load(fh).get('findings', [])


def write_replay(pid, seed, idx, payload):
    os.makedirs(os.path.join(VERIF, 'replays'), exist_ok=True)
    path = os.path.join(VERIF, 'replays', f'{pid}-{seed}-{idx}.json')
    with open(path, 'w') as fh:
        json.dump(payload, fh, indent=1, default=str)
    return path


def write_evidence(pid, tier, seed, level, coverage, assumptions, wall_s, violations):
    # evidence describes /repo itself checked by the full machinery: development runs against a scratch copy (VERIF_REPO) or
    # without the Lean audit (--no-lean) write theirs elsewhere
    scratch = os.environ.get('VERIF_EVIDENCE_SCRATCH') == '1' or os.path.realpath(REPO) != '/repo'
    edir = os.path.join(VERIF, 'evidence-scratch' if scratch else 'evidence')
    os.makedirs(edir, exist_ok=True)
    ev = dict(property_id=pid, tier=tier, seed=int(seed), level=level, coverage=coverage,
              assumptions=assumptions, wall_s=round(wall_s, 2), violations=int(violations))
    with open(os.path.join(edir, f'{pid}.json'), 'w') as fh:
        json.dump(ev, fh, indent=1, default=str)
    return ev


def jsonable(x):
    import numpy as np
    if isinstance(x, Fraction):
        return str(x)
    if isinstance(x, dict):
        return {str(k): jsonable(v) for k, v in x.items()}
    if isinstance(x, (list, tuple)):
        return [jsonable(v) for v in x]
    if isinstance(x, (np.integer,)):
        return int(x)
    if isinstance(x, (np.floating,)):
        return float(x)
    if isinstance(x, np.ndarray):
        return x.tolist()
    return x


def close(a, b, rel, abs_=0.0):
    a = float(a); b = float(b)
    if math.isnan(a) or math.isnan(b):
        return False
    return abs(a - b) <= abs_ + rel * max(abs(a), abs(b))
