#!/venv/bin/python
"""
AST -> Lean translator for the scalar merger-rate and time-scale formulas of phasegen/coalescent_models.py.

Regenerates lean/Generated/Rates.lean from the CURRENT source on every run of the C14 check (and of setup).
PGProperties/C14.lean proves that the generated definitions equal the hand-written model (`PG.getRate`,
`PG.getRateBC`, `PG.timescaleRat`, the Beta rate as a ratio of Beta functions), so a change of the source
arithmetic breaks a proof obligation instead of going unnoticed.

Supported Python subset: functions whose body is a sequence of (docstring | `x = expr` | `if c: ...` | `return expr`);
expressions over +, -, *, /, ** , comparisons, and/or/not, names, `self.<attr>`, integer/float constants, `len(x)`,
`sum(x)`, `x[i]` with constant i, and the primitives `beta`, `comb`, `binom.pmf`, `np.prod([... for ... in zip(b, k)])`,
`np.prod([... for i in range(len(k))])`, calls to sibling methods. Anything else raises `Untranslatable` (a broken tie:
the check then searches the implementation for a failing input).
"""
import ast, os, sys, hashlib

VERIF = os.path.dirname(os.path.dirname(os.path.abspath(__file__)))
REPO = os.environ.get('VERIF_REPO', '/repo')
OUT = os.path.join(VERIF, 'lean', 'Generated', 'Rates.lean')


class Untranslatable(Exception):
    pass


# which functions to translate, with the Lean types of their parameters
# 'N' nat, 'R' real, 'L' list of nat
SPEC = {
    'StandardCoalescent': dict(attrs=[], funcs={
        '_get_timescale': [('N', 'R')],
        '_get_rate': [('b', 'N'), ('k', 'N')],
        '_get_rate_block_counting': [('n', 'N'), ('b', 'L'), ('k', 'L')],
    }),
    'BetaCoalescent': dict(attrs=[('alpha', 'R'), ('scale_time', 'B')], funcs={
        '_get_base_rate': [('b', 'N'), ('k', 'N')],
        '_get_timescale': [('N', 'R')],
        '_get_rate': [('b', 'N'), ('k', 'N')],
        '_get_rate_block_counting': [('n', 'N'), ('b', 'L'), ('k', 'L')],
    }),
    'DiracCoalescent': dict(attrs=[('psi', 'R'), ('c', 'R'), ('scale_time', 'B')], funcs={
        '_get_timescale': [('N', 'R')],
        '_get_rate': [('b', 'N'), ('k', 'N')],
        '_get_rate_block_counting': [('n', 'N'), ('b', 'L'), ('k', 'L')],
    }),
}
LEAN_TY = {'N': 'ℕ', 'R': 'ℝ', 'L': 'List ℕ', 'B': 'Bool'}


class Tr:
    def __init__(self, cls, fname, params, attrs):
        self.cls, self.fname = cls, fname
        self.env = dict(params)
        self.attrs = dict(attrs)

    # ---- types: 'N' (natural number expression), 'R' (real), 'L' list, 'B' bool/prop
    def ty(self, e):
        if isinstance(e, ast.Constant):
            if isinstance(e.value, bool):
                return 'B'
            return 'N' if isinstance(e.value, int) else 'R'
        if isinstance(e, ast.Name):
            return self.env.get(e.id, 'R')
        if isinstance(e, ast.Attribute) and isinstance(e.value, ast.Name) and e.value.id == 'self':
            return self.attrs.get(e.attr, 'R')
        if isinstance(e, ast.Subscript):
            return 'N'
        if isinstance(e, ast.Call):
            f = self.callee(e)
            if f in ('len', 'sum'):
                return 'N'
            return 'R'
        if isinstance(e, ast.BinOp):
            if isinstance(e.op, (ast.Add, ast.Mult)) and self.ty(e.left) == 'N' and self.ty(e.right) == 'N':
                return 'N'
            if isinstance(e.op, ast.Sub) and self.ty(e.left) == 'N' and self.ty(e.right) == 'N':
                return 'Nsub'
            return 'R'
        if isinstance(e, (ast.Compare, ast.BoolOp)) or (isinstance(e, ast.UnaryOp) and isinstance(e.op, ast.Not)):
            return 'B'
        return 'R'

    def callee(self, e):
        f = e.func
        if isinstance(f, ast.Name):
            return f.id
        if isinstance(f, ast.Attribute):
            base = f.value
            if isinstance(base, ast.Name):
                return f'{base.id}.{f.attr}'
            if isinstance(base, ast.Attribute) and isinstance(base.value, ast.Name):
                return f'{base.value.id}.{base.attr}.{f.attr}'
        raise Untranslatable(ast.dump(e))

    def kw(self, e, names):
        """arguments of a call by position or keyword"""
        out = {}
        for n, a in zip(names, e.args):
            out[n] = a
        for k in e.keywords:
            out[k.arg] = k.value
        return out

    # ---- expressions
    def nat(self, e):
        """translate an expression known to be a natural number, in ℕ"""
        if isinstance(e, ast.Constant) and isinstance(e.value, int) and not isinstance(e.value, bool):
            return str(e.value)
        if isinstance(e, ast.Name) and self.env.get(e.id) == 'N':
            return e.id
        if isinstance(e, ast.Subscript) and isinstance(e.value, ast.Name) and self.env.get(e.value.id) == 'L' \
                and isinstance(e.slice, ast.Constant):
            return f'({e.value.id}.getD {e.slice.value} 0)'
        if isinstance(e, ast.Subscript) and isinstance(e.value, ast.Name) and self.env.get(e.value.id) == 'L' \
                and isinstance(e.slice, ast.Name) and self.env.get(e.slice.id) == 'N':
            return f'({e.value.id}.getD {e.slice.id} 0)'
        if isinstance(e, ast.Call) and self.callee(e) == 'len':
            return f'{self.lst(e.args[0])}.length'
        if isinstance(e, ast.Call) and self.callee(e) == 'sum':
            return f'{self.lst(e.args[0])}.sum'
        if isinstance(e, ast.BinOp) and isinstance(e.op, (ast.Add, ast.Mult, ast.Sub)) and self.ty(e.left)[0] == 'N' and self.ty(e.right)[0] == 'N':
            op = {ast.Add: '+', ast.Mult: '*', ast.Sub: '-'}[type(e.op)]
            return f'({self.nat(e.left)} {op} {self.nat(e.right)})'
        raise Untranslatable('not a natural number expression: ' + ast.dump(e))

    def lst(self, e):
        if isinstance(e, ast.Name) and self.env.get(e.id) == 'L':
            return e.id
        raise Untranslatable('not a list: ' + ast.dump(e))

    def real(self, e):
        t = self.ty(e)
        if t == 'N':
            return f'(({self.nat(e)} : ℕ) : ℝ)'
        if isinstance(e, ast.Constant):
            v = e.value
            if isinstance(v, int):
                return f'({v} : ℝ)'
            if isinstance(v, float):
                from fractions import Fraction
                fr = Fraction(v)
                return f'(({fr.numerator} : ℝ) / {fr.denominator})'
        if isinstance(e, ast.Name):
            return e.id
        if isinstance(e, ast.Attribute) and isinstance(e.value, ast.Name) and e.value.id == 'self':
            return e.attr
        if isinstance(e, ast.BinOp):
            if isinstance(e.op, ast.Pow):
                if self.ty(e.right) == 'N':
                    return f'({self.real(e.left)} ^ {self.nat(e.right)})'
                return f'(Real.rpow {self.real(e.left)} {self.real(e.right)})'
            op = {ast.Add: '+', ast.Sub: '-', ast.Mult: '*', ast.Div: '/'}.get(type(e.op))
            if op is None:
                raise Untranslatable(ast.dump(e))
            return f'({self.real(e.left)} {op} {self.real(e.right)})'
        if isinstance(e, ast.UnaryOp) and isinstance(e.op, ast.USub):
            return f'(-{self.real(e.operand)})'
        if isinstance(e, ast.Call):
            f = self.callee(e)
            if f == 'beta':
                a = self.kw(e, ['a', 'b'])
                return f'(betaFn {self.real(a["a"])} {self.real(a["b"])})'
            if f == 'comb':
                a = self.kw(e, ['N', 'k'])
                if not any(k.arg == 'exact' for k in e.keywords):
                    raise Untranslatable('comb without exact=True')
                return f'((Nat.choose {self.nat(a["N"])} {self.nat(a["k"])} : ℕ) : ℝ)'
            if f == 'binom.pmf':
                a = self.kw(e, ['k', 'n', 'p'])
                return f'(binomPmfR {self.nat(a["k"])} {self.nat(a["n"])} {self.real(a["p"])})'
            if f == 'np.prod':
                return self.prod(e.args[0])
            if f.startswith('self.') and f.count('.') == 1:
                return self.method_call(self.cls, f.split('.')[1], e)
            if f == 'self._standard._get_rate' or f == 'self._standard._get_rate_block_counting':
                return self.method_call('StandardCoalescent', f.split('.')[2], e)
        raise Untranslatable('expression: ' + ast.dump(e))

    def method_call(self, cls, name, e):
        params = SPEC[cls]['funcs'].get(name)
        if params is None:
            raise Untranslatable(f'call to untranslated method {cls}.{name}')
        a = self.kw(e, [p for p, _ in params])
        args = []
        for p, t in params:
            if p not in a:
                raise Untranslatable(f'missing argument {p} in call to {name}')
            args.append(self.nat(a[p]) if t == 'N' else self.lst(a[p]) if t == 'L' else self.real(a[p]))
        attrs = [x for x, _ in SPEC[cls]['attrs']]
        return f'({cls}_{name} ' + ' '.join(attrs + args) + ')'

    def prod(self, e):
        if not isinstance(e, ast.ListComp) or len(e.generators) != 1:
            raise Untranslatable('np.prod of something else than a list comprehension')
        g = e.generators[0]
        if g.ifs:
            raise Untranslatable('comprehension with condition')
        it = g.iter
        if isinstance(it, ast.Call) and self.callee(it) == 'zip' and isinstance(g.target, ast.Tuple):
            a, b = it.args
            x, y = g.target.elts
            sub = Tr(self.cls, self.fname, dict(self.env, **{x.id: 'N', y.id: 'N'}), self.attrs)
            return f'((List.zipWith (fun {x.id} {y.id} => {sub.real(e.elt)}) {self.lst(a)} {self.lst(b)}).prod)'
        if isinstance(it, ast.Call) and self.callee(it) == 'range' and isinstance(g.target, ast.Name):
            sub = Tr(self.cls, self.fname, dict(self.env, **{g.target.id: 'N'}), self.attrs)
            return f'(((List.range {self.nat(it.args[0])}).map (fun {g.target.id} => {sub.real(e.elt)})).prod)'
        raise Untranslatable('comprehension: ' + ast.dump(e))

    def cond(self, e):
        if isinstance(e, ast.BoolOp):
            op = ' ∧ ' if isinstance(e.op, ast.And) else ' ∨ '
            return '(' + op.join(self.cond(v) for v in e.values) + ')'
        if isinstance(e, ast.UnaryOp) and isinstance(e.op, ast.Not):
            return f'(¬ {self.cond(e.operand)})'
        if isinstance(e, ast.Compare) and len(e.ops) == 1:
            op = {ast.Eq: '=', ast.Lt: '<', ast.Gt: '>', ast.LtE: '≤', ast.GtE: '≥', ast.NotEq: '≠'}[type(e.ops[0])]
            l, r = e.left, e.comparators[0]
            if self.ty(l) == 'N' and self.ty(r) == 'N':
                return f'({self.nat(l)} {op} {self.nat(r)})'
            return f'({self.real(l)} {op} {self.real(r)})'
        if isinstance(e, ast.Attribute) and isinstance(e.value, ast.Name) and e.value.id == 'self' and self.attrs.get(e.attr) == 'B':
            return f'({e.attr} = true)'
        raise Untranslatable('condition: ' + ast.dump(e))

    # ---- statements
    def block(self, stmts):
        if not stmts:
            raise Untranslatable(f'{self.cls}.{self.fname}: control reaches the end of the function without return')
        s, rest = stmts[0], stmts[1:]
        if isinstance(s, ast.Expr) and isinstance(s.value, ast.Constant) and isinstance(s.value.value, str):
            return self.block(rest)
        if isinstance(s, ast.Return):
            return self.real(s.value)
        if isinstance(s, ast.Assign) and len(s.targets) == 1 and isinstance(s.targets[0], ast.Name):
            name = s.targets[0].id
            val = self.real(s.value)
            self.env[name] = 'R'
            return f'(let {name} : ℝ := {val};\n    {self.block(rest)})'
        if isinstance(s, ast.AugAssign) and isinstance(s.target, ast.Name):
            name = s.target.id
            op = {ast.Mult: '*', ast.Add: '+', ast.Sub: '-', ast.Div: '/'}[type(s.op)]
            val = f'({name} {op} {self.real(s.value)})'
            return f'(let {name} : ℝ := {val};\n    {self.block(rest)})'
        if isinstance(s, ast.If):
            # an if without return inside that only re-binds locals: translate as let with if-then-else per variable
            if not any(isinstance(n, ast.Return) for b in s.body + s.orelse for n in ast.walk(b)):
                assigned = []
                for b in s.body + s.orelse:
                    if isinstance(b, ast.AugAssign) and isinstance(b.target, ast.Name):
                        assigned.append(b)
                    else:
                        raise Untranslatable('if-block without return that is not a sequence of augmented assignments')
                if s.orelse or len(assigned) != 1:
                    raise Untranslatable('unsupported if-block shape')
                b = assigned[0]
                name = b.target.id
                op = {ast.Mult: '*', ast.Add: '+', ast.Sub: '-', ast.Div: '/'}[type(b.op)]
                c = self.cond(s.test)
                return f'(let {name} : ℝ := if {c} then ({name} {op} {self.real(b.value)}) else {name};\n    {self.block(rest)})'
            c = self.cond(s.test)
            env0 = dict(self.env)
            t = self.block(s.body + rest)
            self.env = dict(env0)
            f = self.block(s.orelse + rest)
            self.env = env0
            return f'(if {c} then {t} else {f})'
        if isinstance(s, ast.Expr) and isinstance(s.value, ast.Call) and self.callee(s.value) == 'super.__init__':
            return self.block(rest)
        raise Untranslatable(f'{self.cls}.{self.fname}: statement ' + ast.dump(s)[:200])


def translate(source):
    tree = ast.parse(source)
    classes = {n.name: n for n in tree.body if isinstance(n, ast.ClassDef)}
    defs = []
    for cls, spec in SPEC.items():
        if cls not in classes:
            raise Untranslatable(f'class {cls} not found')
        funcs = {n.name: n for n in classes[cls].body if isinstance(n, ast.FunctionDef)}
        for fname, params in spec['funcs'].items():
            if fname not in funcs:
                raise Untranslatable(f'{cls}.{fname} not found')
            fn = funcs[fname]
            got = [a.arg for a in fn.args.args][1:]
            if got != [p for p, _ in params]:
                raise Untranslatable(f'{cls}.{fname}: parameters {got} differ from the expected {[p for p, _ in params]}')
            tr = Tr(cls, fname, params, spec['attrs'])
            body = tr.block(fn.body)
            binders = ' '.join(f'({a} : {LEAN_TY[t]})' for a, t in spec['attrs'] + params)
            defs.append(f'/-- translated from `{cls}.{fname}` (phasegen/coalescent_models.py, line {fn.lineno}) -/\n'
                        f'noncomputable def {cls}_{fname} {binders} : ℝ :=\n  {body}\n')
    return defs


HEADER = '''/-
GENERATED FILE — do not edit. Written by harness/extract_rates.py from the Python AST of
phasegen/coalescent_models.py (sha256 of the source: {sha}).
Primitives: `betaFn` (= scipy.special.beta), `Nat.choose` (= scipy.special.comb(exact=True)),
`binomPmfR` (= scipy.stats.binom.pmf), `Real.rpow` (= float **).
-/
import PGProofs.GenPrims

namespace PG.Gen
open PG

'''


def regenerate(repo=None, out=OUT):
    repo = repo or REPO
    src = open(os.path.join(repo, 'phasegen', 'coalescent_models.py')).read()
    sha = hashlib.sha256(src.encode()).hexdigest()[:16]
    try:
        defs = translate(src)
        text = HEADER.format(sha=sha) + '\n'.join(defs) + '\nend PG.Gen\n'
    except Untranslatable as e:
        # a broken tie: emit a file that cannot satisfy the proof obligations, recording why
        text = HEADER.format(sha=sha) + f'-- UNTRANSLATABLE: {e}\n' + 'end PG.Gen\n'
    os.makedirs(os.path.dirname(out), exist_ok=True)
    old = open(out).read() if os.path.exists(out) else None
    # the sha line changes with any edit of the source; keep the file byte-identical when the translation is unchanged
    strip = lambda t: '\n'.join(l for l in (t or '').split('\n') if 'sha256' not in l)
    if old is None or strip(old) != strip(text):
        with open(out, 'w') as fh:
            fh.write(text)
        return True
    return False


if __name__ == '__main__':
    changed = regenerate()
    print('Generated/Rates.lean', 'rewritten' if changed else 'unchanged')
