#!/usr/bin/env python3
"""
Development tool (not used by the checks): writes lean/PGProperties/Cxx.lean from the table in props_table.py.
Every property theorem is RESTATED with its full type (obtained from `#check`) and proved by the lemma of PGProofs it
comes from, so that the statement a property relies on is visible in one file and cannot be weakened silently by an
edit of a helper file (a change of the helper's statement breaks the restated theorem). Hand-written additions
(non-vacuity examples, counterexamples, glue) live in lean/PGProperties/extra/Cxx.lean.in and are appended verbatim.
Also writes lean/theorems.json (the proof obligations audited by harness/check.py).
"""
import json, os, re, subprocess, sys, textwrap
V = os.path.dirname(os.path.dirname(os.path.abspath(__file__)))
LEAN = os.path.join(V, 'lean')
sys.path.insert(0, os.path.join(V, 'harness'))
from props_table import TABLE

props = {json.loads(l)['id']: json.loads(l) for l in open(os.path.join(V, 'properties.jsonl'))}


def check_types(imports, names):
    src = ''.join(f'import {i}\n' for i in imports) + 'open PG\nset_option pp.fieldNotation.generalized false\nset_option linter.all false\nset_option format.width 100000\n' + \
          ''.join(f'#check @{n}\n' for n in names)
    tmp = os.path.join(LEAN, '.mkprops_tmp.lean')
    open(tmp, 'w').write(src)
    p = subprocess.run(['lake', 'env', 'lean', '-Dpp.unicode.fun=true', '-Dformat.width=100000', tmp], cwd=LEAN, capture_output=True, text=True)
    os.unlink(tmp)
    out = p.stdout + p.stderr
    types = {}
    # messages look like: file:line:col: info: @PG.name : type  (possibly multi-line); with huge width they are one line
    cur = None
    for line in out.split('\n'):
        m = re.match(r'^(?:.*?: info: )?@?([\w\.\'₁₂]+) : (.*)$', line)
        if m and not line.startswith(' '):
            cur = m.group(1); types[cur] = m.group(2)
        elif cur and line.startswith(' '):
            types[cur] += ' ' + line.strip()
        elif re.match(r'.*: error', line):
            print('ERR', line)
            cur = None
    return types


def main():
    reg = {}
    for pid, spec in TABLE.items():
        names = [src for _, src, _ in spec['theorems']]
        types = check_types(spec['imports'], names)
        lines = []
        p = props[pid]
        lines.append('/-')
        lines.append(f'# {pid} — {p["title"]}')
        lines.append('')
        lines += textwrap.wrap(p['statement'], 100)
        lines.append('')
        lines.append('Quantifier: ' + '\n'.join(textwrap.wrap(p['quantifier']['text'], 100)))
        lines.append('')
        lines += textwrap.wrap(spec['summary'], 100)
        lines.append('')
        lines.append('This file restates the theorems the property rests on (full statements; proofs are in PGProofs/).')
        lines.append('Generated once by harness/mkprops.py from harness/props_table.py + PGProperties/extra/' + pid + '.lean.in; committed as source.')
        lines.append('-/')
        for i in spec['imports']:
            lines.append(f'import {i}')
        lines.append('')
        lines.append('set_option linter.all false')
        lines.append('set_option pp.fieldNotation.generalized false')
        lines.append('')
        lines.append(f'namespace PG.{pid}')
        lines.append('open PG')
        for o in spec.get('open', []):
            lines.append(f'open {o}')
        lines.append('')
        thms = []
        for new, src, doc in spec['theorems']:
            t = types.get(src) or types.get(src.replace('PG.', '', 1))
            lines.append('/-- ' + doc + ' -/')
            if t is None:
                print(f'{pid}: no type for {src}; aliasing')
                lines.append(f'theorem {new} : type_of% @{src} := @{src}')
            else:
                lines.append(f'theorem {new} : {t} := @{src}')
            lines.append('')
            thms.append(f'PG.{pid}.{new}')
        extra = os.path.join(LEAN, 'PGProperties', 'extra', f'{pid}.lean.in')
        extra_thms = []
        if os.path.exists(extra):
            ex = open(extra).read()
            lines.append('/-! ## hand-written part: glue, non-vacuity examples, counterexamples -/')
            lines.append(ex)
            extra_thms = [f'PG.{pid}.{m}' for m in re.findall(r'^theorem (\S+)', ex, re.M)]
        lines.append(f'end PG.{pid}')
        lines.append('')
        for t in thms + extra_thms:
            lines.append(f'#print axioms {t}')
        path = os.path.join(LEAN, 'PGProperties', f'{pid}.lean')
        open(path, 'w').write('\n'.join(lines) + '\n')
        # statements that do not re-elaborate from their printed form (e.g. dependent index proofs) fall back to an alias
        for _ in range(6):
            pr = subprocess.run(['lake', 'env', 'lean', path], cwd=LEAN, capture_output=True, text=True)
            errs = sorted({int(m.group(1)) for m in re.finditer(r':(\d+):\d+: error', pr.stdout + pr.stderr)})
            if not errs:
                break
            cur = open(path).read().split('\n')
            changed = False
            for ln in errs:
                l = cur[ln - 1]
                m = re.match(r'theorem (\S+) : .* := (@\S+)$', l)
                if m:
                    cur[ln - 1] = f'theorem {m.group(1)} : type_of% {m.group(2)} := {m.group(2)}   -- (printed statement does not re-elaborate; see the source lemma)'
                    changed = True
            open(path, 'w').write('\n'.join(cur))
            if not changed:
                print(pid, 'unresolved errors at lines', errs)
                print((pr.stdout + pr.stderr)[:1500])
                break
        reg[pid] = dict(module=f'PGProperties.{pid}', theorems=thms + extra_thms)
    json.dump(reg, open(os.path.join(LEAN, 'theorems.json'), 'w'), indent=1)
    open(os.path.join(LEAN, 'PGProperties.lean'), 'w').write(''.join(f'import PGProperties.{p}\n' for p in sorted(TABLE)))
    print({k: len(v['theorems']) for k, v in reg.items()})


if __name__ == '__main__':
    main()
