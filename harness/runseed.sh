#!/bin/bash
# usage: harness/runseed.sh <patch.diff> <property> [<property> ...]
# Applies a seeded change to a scratch copy of /repo (never to /repo itself while other work is running), runs the
# given checks against it with VERIF_REPO, prints their verdict lines, and removes the copy.
set -u
PATCH=$(realpath "$1"); shift
W=$(mktemp -d /tmp/pgmut-XXXXXX)
cp -r /repo/phasegen "$W/phasegen"
( cd "$W" && git init -q . && git add -A >/dev/null && git apply --unsafe-paths -p1 "$PATCH" ) || { echo "patch does not apply"; rm -rf "$W"; exit 2; }
for P in "$@"; do
  echo "== $P against $(basename $PATCH)"
  ( cd /verif && VERIF_REPO="$W" timeout 1500 /venv/bin/python harness/check.py --property "$P" --tier "${TIER:-quick}" ${NOLEAN:+--no-lean} 2>&1 | grep -v conda | grep -E "VIOLATION|KNOWN|^C[0-9]+ |infrastructure" | cut -c1-300 )
  echo "   exit=$?"
done
rm -rf "$W"
# restore the generated rates file from the real source
( cd /verif && /venv/bin/python harness/extract_rates.py >/dev/null )
